"""C13 — all scan entry points agree, also across interrupted block iteration.

Decides the funnel and the continuation bookkeeping (DESIGN.md §4 C13):
  R13.1 funnel: the block scanner and the rule evaluator are called only from
        yr_scanner_scan_mem_blocks; every public yr_rules_scan_* /
        yr_scanner_scan_* reaches it; the rules-level wrappers create a
        scanner, scan and destroy it on every path; the file/fd variants pair
        map and unmap on every path;
  R13.2 continuation: the fresh-scan initialisation is control-dependent on
        iterator->last_error != ERROR_BLOCK_NOT_READY, the end-of-scan cleanup
        on result != ERROR_BLOCK_NOT_READY, and nothing else clears matches;
        a continuation calls next(), a fresh scan first();
  R13.3 every walk over the block iterator that treats NULL as "no more
        data" consults iterator->last_error before reporting success.
Not decided: identical results across entry points as values.
"""
from .. import cfgutil as cu
from .. import paths
from ..callgraph import CallGraph
from .C10 import fresh_branch

LEVEL = 'other'
EXPLANATION = (
    'Who-may-call and reachability over the resolved call graph for the scan '
    'funnel; create/destroy and map/unmap pairing on every path of the '
    'wrappers; structural position of the continuation guards; a per-function '
    'rule that a block-iterator walk reads last_error.')
ASSUMPTIONS = ['docs/capi.rst puts the obligation "no ERROR_BLOCK_NOT_READY after the first '
               'full iteration" on user iterators; R13.3 is reported as a known finding '
               'with that caveat']

FUNNEL = 'yr_scanner_scan_mem_blocks'
ONLY_FROM_FUNNEL = ('_yr_scanner_scan_mem_block', 'yr_execute_code')
PUBLIC = ('yr_rules_scan_mem', 'yr_rules_scan_file', 'yr_rules_scan_fd', 'yr_rules_scan_proc',
          'yr_rules_scan_mem_blocks', 'yr_scanner_scan_mem', 'yr_scanner_scan_file',
          'yr_scanner_scan_fd', 'yr_scanner_scan_proc', 'yr_scanner_scan_mem_blocks')
PAIRS = {
    'yr_rules_scan_file': ('yr_filemap_map', 'yr_filemap_unmap'),
    'yr_rules_scan_fd': ('yr_filemap_map_fd', 'yr_filemap_unmap_fd'),
    'yr_scanner_scan_file': ('yr_filemap_map', 'yr_filemap_unmap'),
    'yr_scanner_scan_fd': ('yr_filemap_map_fd', 'yr_filemap_unmap_fd'),
    'yr_scanner_scan_proc': ('yr_process_open_iterator', 'yr_process_close_iterator'),
    'yr_rules_scan_mem_blocks': ('yr_scanner_create', 'yr_scanner_destroy'),
    'yr_rules_scan_mem': ('yr_scanner_create', 'yr_scanner_destroy'),
    'yr_rules_scan_proc': ('yr_process_open_iterator', 'yr_process_close_iterator'),
}


def r13_1(ctx):
    prog = ctx.prog
    cg = CallGraph(prog)
    for target in ONLY_FROM_FUNNEL:
        callers = set()
        for f in prog.fns():
            if not f.file.startswith('libyara/') and not ctx.fixture:
                continue
            for c, t, g in cg.callees(f):
                if t == target:
                    callers.add(f.name)
        ctx.ob('R13.1', '%s:called-only-from-funnel' % target, callers == set([FUNNEL]),
               'libyara', '%s is called only from %s' % (target, FUNNEL) if callers == set([FUNNEL])
               else '%s is called from %s: an entry point bypasses the common scan path' % (
                   target, ', '.join(sorted(callers)) or 'nowhere'))
    for api in PUBLIC:
        f = prog.fn(api)
        if f is None:
            ctx.require(ctx.fixture, 'public API %s not found' % api)
            continue
        reach = set(g.name for g in cg.reachable([f]))
        ok = FUNNEL in reach or api == FUNNEL
        ctx.ob('R13.1', '%s:reaches-funnel' % api, ok, '%s:%s' % (f.file, f.line),
               '%s funnels into %s' % (api, FUNNEL) if ok else
               '%s does not reach %s' % (api, FUNNEL))
    for api, (acq, rel) in sorted(PAIRS.items()):
        f = prog.fn(api)
        if f is None:
            continue
        # the acquisition may sit in a static helper that hands the resource to its
        # caller: when it returns success the resource is held, when it fails it is not
        wrappers = {}
        for h in cu.family(prog, f)[1:]:
            hs = [c for c in h.calls() if c.get('callee') == acq]
            if hs:
                hbad, holds = _pairing(h, hs[0], rel, wrapper=True)
                wrappers[h.name] = (h, hs[0], hbad, holds)
        acqs = [c for c in f.calls() if c.get('callee') == acq or
                (c.get('callee') in wrappers and wrappers[c['callee']][3])]
        if not acqs:
            ctx.ob('R13.1', '%s:%s/%s-paired' % (api, acq, rel), False, '%s:%s' % (f.file, f.line),
                   '%s no longer calls %s' % (api, acq))
            continue
        a = acqs[0]
        bad, _ = _pairing(f, a, rel, wrapper=False)
        where = f.loc(bad[0]) if bad else f.loc(a)
        what = '%s returns after a successful %s without %s' % (api, acq, rel)
        if not bad and a.get('callee') in wrappers and wrappers[a['callee']][2]:
            h, _, hbad, _ = wrappers[a['callee']]
            bad = hbad
            where = h.loc(hbad[0])
            what = '%s can fail after a successful %s without %s' % (h.name, acq, rel)
        ctx.ob('R13.1', '%s:%s/%s-paired' % (api, acq, rel), not bad, where,
               'every path after a successful %s passes %s' % (acq, rel) if not bad else what)


def _pairing(f, a, rel, wrapper):
    """paths of f after the acquiring call a.  Returns (bad return nodes, holds):
    api mode: a return that still owns the resource is bad;
    wrapper mode: a return that still owns it is the point of the function when it
    returns success (holds=True) and bad when it returns (or may return) failure."""
    nb = f.block_of(a)
    bad = []
    holds = [False]
    ct = paths.CondTracker(f, extra=['result', '__error'])
    from .C16 import call_use
    u = call_use(f, a)
    carrier = u[1] if isinstance(u, tuple) else None
    init = set()
    if carrier:
        init.add(('pend', carrier))
    else:
        init.add('own')

    def zero_or_not(n, facts):
        e = cu.strip_casts(f, f.kid(n, 0)) if n.get('c') else None
        if e is None:
            return None
        v = cu.const_of(e)
        if v is not None:
            return v == 0
        if e['k'] == 'ref':
            for x in facts:
                if isinstance(x, tuple) and len(x) == 3 and x[1] == e['name'] and x[2] == 0:
                    return x[0] == 'eq'
        return None

    def step(n, facts):
        if n['k'] == 'decl' and n.get('c'):
            src = cu.strip_casts(f, f.kid(n, 0))
            if src is not None and src['k'] == 'ref' and ('pend', src['name']) in facts:
                facts = frozenset(facts) | {('pend', n['name'])}
        if n['k'] == 'call' and n.get('callee') == rel:
            return frozenset(x for x in facts if x != 'own' and not (isinstance(x, tuple) and x[0] == 'pend'))
        if n['k'] == 'ret':
            if 'own' in facts:
                if not wrapper:
                    bad.append(n)
                else:
                    z = zero_or_not(n, facts)
                    if z:
                        holds[0] = True
                    else:
                        bad.append(n)
            return None
        return facts

    def edge(b, term, cond, idx, succ, facts):
        pol = paths.branch_polarity(f, term, idx)
        if pol is None or cond is None:
            return facts
        imp = ct.implied(cond, pol)
        if imp is not None and ('pend', imp[1]) in facts and imp[2] == 0:
            rest = frozenset(x for x in facts if not (isinstance(x, tuple) and x[0] == 'pend'))
            return rest | ({'own'} if imp[0] == 'eq' else set()) | {imp}
        if imp is not None and imp[2] == 0 and wrapper:
            if not paths.CondTracker.consistent(facts, imp):
                return None
            return frozenset(facts) | {imp}
        return facts
    paths.explore(f, init, step, edge, start_block=nb[0], start_index=nb[1] + 1, max_states=128)
    return bad, holds[0]


def r13_2(ctx):
    prog = ctx.prog
    f = ctx.fn(FUNNEL, 'libyara/scanner.c')
    nr = prog.macro_value('ERROR_BLOCK_NOT_READY')
    fb = fresh_branch(ctx, f)
    ctx.ob('R13.2', 'fresh-initialisation:guarded-by-last_error', fb is not None,
           '%s:%s' % (f.file, f.line),
           'fresh-scan initialisation is in the branch taken when last_error != '
           'ERROR_BLOCK_NOT_READY' if fb is not None else
           'the fresh-scan / continuation split on iterator->last_error is gone')
    if fb is not None:
        # first() in the fresh branch, next() in the continuation branch
        def iter_calls(node):
            out = []
            for x in f.walk(node):
                if x['k'] == 'call' and 'callee' not in x:
                    m = cu.strip_casts(f, f.kid(x, 0))
                    if m is not None and m['k'] == 'member' and m['fld'] in ('first', 'next'):
                        out.append(m['fld'])
            return out
        parent_if = f.parent(fb)
        ks = f.kids(parent_if)
        other = ks[1] if ks[2] is fb else ks[2]
        ok = iter_calls(fb) == ['first'] and iter_calls(other) == ['next']
        ctx.ob('R13.2', 'continuation:next-not-first', ok, f.loc(parent_if),
               'a continuation resumes with next(), a fresh scan starts with first()' if ok else
               'fresh branch calls %s, continuation branch calls %s' % (
                   iter_calls(fb), iter_calls(other)))
        # notebook creation / required_eval seeding only in the fresh branch
        for callee in ('yr_notebook_create',):
            sites = [c for c in f.calls() if c.get('callee') == callee]
            ok = bool(sites) and all(f.is_ancestor(fb, c) for c in sites)
            ctx.ob('R13.2', '%s:only-on-fresh-scan' % callee, ok, f.loc(sites[0]) if sites else f.file,
                   '%s happens only when a scan starts afresh' % callee if ok else
                   '%s also runs on a continuation: matches collected before the '
                   'interruption are lost' % callee)
    # state accumulated block by block is not re-initialised on a continuation
    if fb is not None:
        from ..effects import Effects
        cg = CallGraph(prog)
        E = Effects(prog, cg)
        T = E.transitive()
        loop = None
        for n in f.all_nodes():
            if n['k'] in ('while', 'for') and not f.is_ancestor(fb, n):
                c = f.kid(n, 0 if n['k'] == 'while' else 1)
                if c is not None and 'block' in f.show(c) and \
                        any(x['k'] == 'call' and x.get('callee') == '_yr_scanner_scan_mem_block'
                            for x in f.walk(n)):
                    loop = n
        ctx.ob('R13.2', 'block-loop:found', loop is not None, '%s:%s' % (f.file, f.line),
               'the loop over the memory blocks is identified' if loop is not None else
               'no loop over the blocks calling _yr_scanner_scan_mem_block')
        if loop is not None:
            acc = {}
            for n in f.walk(loop):
                if n['k'] == 'bin' and n['op'].endswith('=') and n['op'] not in ('==', '!=', '<=', '>='):
                    l = cu.strip_casts(f, f.kid(n, 0))
                    if l is not None and l['k'] == 'member' and l.get('rec') == 'YR_SCAN_CONTEXT':
                        acc.setdefault(l['fld'], f.loc(n))
                if n['k'] == 'call' and n.get('callee'):
                    g = prog.fn(n['callee'], f.tu)
                    if g is not None:
                        for e, w in T[(g.tu.name, g.name)].items():
                            if e[0] == 'field' and e[1] == 'YR_SCAN_CONTEXT':
                                acc.setdefault(e[2].replace('[]', '').split('.')[0], w[0].loc(w[1]))
            ctx.require(len(acc) >= 3 or ctx.fixture, 'only %d scanner fields accumulate during the block loop' % len(acc))
            bad = []
            for n in f.all_nodes():
                if n['k'] == 'bin' and n['op'] == '=' and not f.is_ancestor(loop, n) and \
                        not f.is_ancestor(fb, n) and n.get('l', 0) < loop.get('l', 0):
                    l = cu.strip_casts(f, f.kid(n, 0))
                    if l is not None and l['k'] == 'member' and l.get('rec') == 'YR_SCAN_CONTEXT' \
                            and l['fld'] in acc:
                        bad.append((n, l['fld']))
            ctx.ob('R13.2', 'accumulated-state:not-reset-on-continuation', not bad,
                   f.loc(bad[0][0]) if bad else f.loc(loop),
                   'no field that the block loop accumulates (%d fields) is assigned before the loop '
                   'outside the fresh-scan branch' % len(acc) if not bad else
                   'scanner->%s is (re)assigned here on every call, continuations included, although '
                   'the block loop accumulates it (%s): what was computed before the suspension is '
                   'lost when the scan resumes' % (bad[0][1], acc[bad[0][1]]))
    # cleanup under result != ERROR_BLOCK_NOT_READY.  A "clearing site" is a call of
    # _yr_scanner_clean_matches, or of a static helper of the funnel that reaches it
    CLEAN = '_yr_scanner_clean_matches'
    via = cu.helpers_reaching(prog, f, CLEAN)
    cleans = [c for c in f.calls() if (c.get('callee') == CLEAN or c.get('callee') in via)
              and (fb is None or not f.is_ancestor(fb, c))]
    # the variable the funnel returns
    returned = set()
    for n in f.all_nodes():
        if n['k'] == 'ret' and n.get('c'):
            e = cu.strip_casts(f, f.kid(n, 0))
            if e is not None and e['k'] == 'ref' and not any(
                    m.startswith(('FAIL_ON_', 'GOTO_EXIT_ON_')) for m in f.macros(n)):
                returned.add(e['name'])
    ok = bool(cleans)
    # every clearing site is reached only after the returned variable was found different
    # from ERROR_BLOCK_NOT_READY (an `if (result != NR) {..}` block, or an early
    # `if (result == NR) goto done;` in front of it), with no assignment in between
    clean_ids = set(c['i'] for c in cleans)
    unguarded = []

    def step_nr(n, facts):
        if n['k'] == 'bin' and n['op'].endswith('=') and n['op'] not in ('==', '!=', '<=', '>='):
            l = cu.strip_casts(f, f.kid(n, 0))
            if l is not None and l['k'] == 'ref' and l['name'] in returned:
                return frozenset()
        if n['k'] == 'ret':
            return None
        return facts

    def edge_nr(b, term, cond, idx, succ, facts):
        pol = paths.branch_polarity(f, term, idx)
        if pol is None or cond is None:
            return facts
        c, p2 = paths.normalise_cond(f, cond, pol)
        while c is not None and c['k'] == 'paren':
            c = cu.strip_casts(f, f.kid(c, 0))
        if c is not None and c['k'] == 'bin' and c['op'] in ('==', '!='):
            for x, y in ((f.kid(c, 0), f.kid(c, 1)), (f.kid(c, 1), f.kid(c, 0))):
                xs = cu.strip_casts(f, x)
                if xs is not None and xs['k'] == 'ref' and xs['name'] in returned and \
                        cu.const_of(cu.strip_casts(f, y)) == nr:
                    differs = (c['op'] == '!=') == p2
                    return (frozenset(facts) | {'ne_nr'}) if differs else (frozenset(facts) - {'ne_nr'})
        return facts

    def obs_nr(n, facts):
        if n['i'] in clean_ids and 'ne_nr' not in facts:
            unguarded.append(n)
    paths.must_flow(f, set(), step_nr, edge_nr, obs_nr)
    ok = ok and not unguarded
    ctx.ob('R13.2', 'end-of-scan-cleanup:skipped-when-suspended', ok,
           f.loc(cleans[0]) if cleans else f.file,
           'matches are kept when the scan is suspended with ERROR_BLOCK_NOT_READY and cleaned '
           'otherwise' if ok else
           'the end-of-scan cleanup is no longer conditional on result != ERROR_BLOCK_NOT_READY: '
           'a resumed scan loses (or a finished scan keeps) its matches')
    # nobody else clears matches: the funnel, or static helpers that only the funnel uses
    callers = set()
    for g in prog.fns():
        for c in g.calls():
            if c.get('callee') == CLEAN:
                if g.name != FUNNEL and cu.only_called_from(g, set([FUNNEL])):
                    continue
                callers.add(g.name)
    ctx.ob('R13.2', 'clean_matches:who-may-call', callers <= set([FUNNEL]), 'libyara/scanner.c',
           'matches are cleared only by %s' % FUNNEL if callers <= set([FUNNEL]) else
           'matches are also cleared by %s' % ', '.join(sorted(callers - set([FUNNEL]))))


def _entry_points_of(f, depth=0):
    """the functions on whose behalf the static helper f runs: its transitive callers
    in the translation unit, up to functions that are not static, have their address
    taken (registered in a table) or have no caller"""
    def address_taken(h):
        for g in h.tu.fn_list:
            for n in g.all_nodes():
                if n['k'] == 'ref' and n.get('name') == h.name:
                    par = g.parent(n)
                    if not (par is not None and par['k'] == 'call' and g.kid(par, 0) is n) and \
                            not (par is not None and par['k'] == 'call' and par.get('callee') == h.name):
                        return True
        return False
    if not getattr(f, 'static', False) or depth > 3 or address_taken(f):
        return [f]
    callers = [g for g in f.tu.fn_list if g is not f and any(c.get('callee') == f.name for c in g.calls())]
    if not callers:
        return [f]
    out = []
    for g in callers:
        for r in _entry_points_of(g, depth + 1):
            if r not in out:
                out.append(r)
    return out


def r13_3(ctx):
    prog = ctx.prog
    n = 0
    per_entry = {}
    for f in prog.fns():
        if not f.file.startswith('libyara/') and not ctx.fixture:
            continue
        walks = []
        for c in f.calls():
            if 'callee' in c:
                continue
            m = cu.strip_casts(f, f.kid(c, 0))
            if m is not None and m['k'] == 'member' and m['fld'] in ('first', 'next') and \
                    m.get('rec') == 'YR_MEMORY_BLOCK_ITERATOR':
                walks.append(c)
        if not walks:
            continue
        n += 1
        reads_err = any(x['k'] == 'member' and x['fld'] == 'last_error' and
                        x.get('rec') == 'YR_MEMORY_BLOCK_ITERATOR' for x in f.all_nodes())
        # a walk in a static helper is reported for the functions that use the helper: the
        # finding is "evaluating <entry point> can take a not-ready block for the end of the
        # data", wherever the loop itself is written
        for r in _entry_points_of(f):
            per_entry.setdefault(r.name, []).append((f, walks[0], reads_err))
    for name in sorted(per_entry):
        items = per_entry[name]
        badw = [x for x in items if not x[2]]
        f, w, _ = (badw or items)[0]
        via = '' if f.name == name else ' (through %s)' % f.name
        ctx.ob('R13.3', '%s:consults-last_error' % name, not badw, f.loc(w),
               'walks the block iterator and reads iterator->last_error' if not badw else
               '%s walks the block iterator%s and treats a NULL block as end of data without '
               'reading iterator->last_error: a not-ready block during rule evaluation is '
               'silently taken for the end of the data' % (name, via))
    ctx.count('block_iterator_walkers', n)


FIXTURES = {
    'R13.1': {'src': 'C13/walk.c', 'run': r13_1, 'expect': 'yr_execute_code:called-only-from-funnel'},
    'R13.3': {'src': 'C13/walk.c', 'run': r13_3, 'expect': 'total_size:consults-last_error',
              'expect_ok': 'yr_scanner_scan_mem_blocks:consults-last_error'},
}


# ---------------------------------------------------------------- R13.4

WRAPPERS = tuple(sorted(PAIRS)) + ('yr_filemap_map', 'yr_filemap_map_ex')
OS_OPEN = ('open', 'CreateFileA', 'CreateFileW', 'fopen', 'fileno')


def r13_4(ctx):
    """an entry point that only acquires a resource and delegates rejects nothing of its
    own: every return of a failure in a wrapper (file -> fd -> memory -> blocks, rules ->
    scanner) is the failure of the acquiring call, the failure of the delegate, or a NULL
    argument.  A rejection on any other condition (a stat() of the path, a size limit)
    makes this entry point disagree with its siblings on inputs they accept."""
    prog = ctx.prog
    n_ret = 0
    for api in WRAPPERS:
        f0 = prog.fn(api)
        if f0 is None:
            ctx.require(ctx.fixture or api.startswith('yr_filemap'), 'wrapper %s not found' % api)
            continue
        fam = cu.family(prog, f0)
        allowed = set(PUBLIC) | set([FUNNEL]) | set(a for a, r in PAIRS.values()) | set(OS_OPEN) | \
            set(WRAPPERS) | set(['yr_filemap_map_fd', 'yr_scanner_create']) | set(h.name for h in fam)
        for f in fam:
            params = set(p['name'] for p in f.params)

            def defs_of(name, f=f):
                out = []
                for n in f.all_nodes():
                    if n['k'] == 'decl' and n['name'] == name and n.get('c'):
                        out.append(cu.strip_casts(f, f.kid(n, 0)))
                    elif n['k'] == 'bin' and n['op'] == '=':
                        l = cu.strip_casts(f, f.kid(n, 0))
                        if l is not None and l['k'] == 'ref' and l['name'] == name:
                            out.append(cu.strip_casts(f, f.kid(n, 1)))
                return out

            def foreign(e, f=f, params=params, depth=0):
                """first thing in expression e that is neither a parameter, a constant, nor the
                result of an acquiring / delegating call; None when there is none"""
                for x in f.walk(e):
                    if x['k'] == 'call':
                        if (x.get('callee') or '*') not in allowed:
                            return x
                    elif x['k'] == 'ref' and x.get('dk') in ('local',):
                        if depth > 2:
                            continue
                        for d in defs_of(x['name']):
                            if d is None:
                                continue
                            if d['k'] == 'call':
                                if (d.get('callee') or '*') not in allowed:
                                    return d
                            elif cu.const_of(d) is None:
                                r = foreign(d, depth=depth + 1)
                                if r is not None:
                                    return r
                return None
            for n in f.all_nodes():
                if n['k'] != 'ret' or not n.get('c'):
                    continue
                e = cu.strip_casts(f, f.kid(n, 0))
                if e is not None and cu.const_of(e) == 0:
                    continue
                n_ret += 1
                why = foreign(e)
                child = n
                if why is None:
                    for a in f.ancestors(n):
                        if a['k'] == 'if':
                            cnd = f.kid(a, 0)
                            why = foreign(cnd)
                            if why is not None:
                                break
                            # a test of the arguments alone may only reject NULL
                            refs = [x for x in f.walk(cnd) if x['k'] == 'ref']
                            calls = [x for x in f.walk(cnd) if x['k'] == 'call']
                            if refs and not calls and all(x.get('dk') == 'param' for x in refs):
                                for x in f.walk(cnd):
                                    if x['k'] == 'bin' and x['op'] in ('<', '>', '<=', '>=', '&', '==', '!='):
                                        if x['op'] in ('==', '!=') and 0 in (
                                                cu.const_of(cu.strip_casts(f, f.kid(x, 0))),
                                                cu.const_of(cu.strip_casts(f, f.kid(x, 1)))):
                                            continue
                                        why = x
                                        break
                                if why is not None:
                                    break
                key = '%s:return@%s:only-acquisition-or-delegate-failures' % (f.name, _ordinal(f, n))
                ctx.ob('R13.4', key, why is None, f.loc(n),
                       'this return hands on the failure of the acquiring call, of the delegate, or '
                       'rejects a NULL argument' if why is None else
                       '%s fails here on `%s`, a condition of its own: inputs its sibling entry points '
                       'scan are rejected by this one' % (api, f.show(why)[:70]))
    ctx.count('wrapper_failure_returns', n_ret)


def _ordinal(f, n):
    rets = sorted((x.get('l', 0), x['i']) for x in f.all_nodes() if x['k'] == 'ret')
    return rets.index((n.get('l', 0), n['i']))


def r13_5(ctx):
    """a wrapper entry point reports success only after its delegate ran: every return that
    is not a failure (a non-zero constant, or a result variable found non-zero on the path)
    is reached through the call that does the actual scan / mapping.  An early `return
    ERROR_SUCCESS` for a degenerate input (an empty file) makes this entry point skip the
    whole callback protocol that its siblings run for the same bytes."""
    prog = ctx.prog
    n = 0
    deleg_names = set(PUBLIC) | set([FUNNEL]) | set(WRAPPERS) | set(['yr_filemap_map_fd'])
    for api in WRAPPERS:
        f = prog.fn(api)
        if f is None:
            continue
        fam = cu.family(prog, f)
        names = deleg_names | set(h.name for h in fam[1:])
        acq = PAIRS.get(api, (None, None))[0]
        delegs = [c for c in f.calls() if c.get('callee') in names and c.get('callee') not in (api, acq)]
        if not delegs:
            ctx.ob('R13.5', '%s:delegates' % api, False, '%s:%s' % (f.file, f.line),
                   '%s no longer calls another entry point' % api)
            n += 1
            continue
        did = set(c['i'] for c in delegs)
        rvars = set()
        for x in f.all_nodes():
            if x['k'] == 'ret' and x.get('c'):
                e = cu.strip_casts(f, f.kid(x, 0))
                if e is not None and e['k'] == 'ref':
                    rvars.add(e['name'])
        ct = paths.CondTracker(f, extra=sorted(rvars))
        bad = []

        def step(x, facts):
            facts = ct.on_step(x, facts)
            if x['i'] in did:
                return frozenset(facts) | {'delegated'}
            if x['k'] == 'ret':
                if 'delegated' in facts:
                    return None
                e = cu.strip_casts(f, f.kid(x, 0)) if x.get('c') else None
                v = cu.const_of(e) if e is not None else 0
                if v is not None and v != 0:
                    return None
                if v is None and e is not None and e['k'] == 'ref' and any(
                        isinstance(t, tuple) and len(t) == 3 and t[1] == e['name'] and
                        ((t[0] == 'ne' and t[2] == 0) or (t[0] == 'eq' and t[2] != 0)) for t in facts):
                    return None
                bad.append(x)
                return None
            return facts

        def edge(b, term, cond, idx, succ, facts):
            return ct.on_edge(term, cond, idx, facts)
        try:
            paths.explore(f, set(), step, edge, max_states=4096)
        except paths.Budget:
            ctx.note('R13.5 %s: budget exceeded' % api)
            continue
        n += 1
        ctx.ob('R13.5', '%s:success-only-through-the-delegate' % api, not bad,
               f.loc(bad[0]) if bad else f.loc(delegs[0]),
               'every return that is not a failure passes %s' % '/'.join(sorted(set(c['callee'] for c in delegs)))
               if not bad else
               '%s can return success here without having called %s: for such an input this entry point '
               'delivers none of the callbacks its sibling entry points deliver' % (
                   api, '/'.join(sorted(set(c['callee'] for c in delegs)))))
    return n


def run(ctx):
    r13_1(ctx)
    ctx.floor('R13.1', 14)
    r13_2(ctx)
    ctx.floor('R13.2', 7)
    r13_3(ctx)
    ctx.floor('R13.3', 8)
    r13_4(ctx)
    ctx.floor('R13.4', 10)
    r13_5(ctx)
    ctx.floor('R13.5', 8)

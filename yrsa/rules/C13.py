"""C13 — all scan entry points agree, also across interrupted block iteration.

Decides the funnel and the continuation bookkeeping (DESIGN.md §4 C13):
  R13.1 funnel: the block scanner and the rule evaluator are called only from
        yr_scanner_scan_mem_blocks; every public yr_rules_scan_* /
        yr_scanner_scan_* reaches it; the rules-level wrappers create a
        scanner, scan and destroy it on every path; the file/fd variants pair
        map and unmap on every path;
  R13.2 continuation: the fresh-scan initialisation is control-dependent on
        iterator->last_error != ERROR_BLOCK_NOT_READY, the end-of-scan cleanup
        on result != ERROR_BLOCK_NOT_READY, and nothing else clears matches;
        a continuation calls next(), a fresh scan first();
  R13.3 every walk over the block iterator that treats NULL as "no more
        data" consults iterator->last_error before reporting success.
Not decided: identical results across entry points as values.
"""
from .. import cfgutil as cu
from .. import paths
from ..callgraph import CallGraph
from .C10 import fresh_branch

LEVEL = 'other'
EXPLANATION = (
    'Who-may-call and reachability over the resolved call graph for the scan '
    'funnel; create/destroy and map/unmap pairing on every path of the '
    'wrappers; structural position of the continuation guards; a per-function '
    'rule that a block-iterator walk reads last_error.')
ASSUMPTIONS = ['docs/capi.rst puts the obligation "no ERROR_BLOCK_NOT_READY after the first '
               'full iteration" on user iterators; R13.3 is reported as a known finding '
               'with that caveat']

FUNNEL = 'yr_scanner_scan_mem_blocks'
ONLY_FROM_FUNNEL = ('_yr_scanner_scan_mem_block', 'yr_execute_code')
PUBLIC = ('yr_rules_scan_mem', 'yr_rules_scan_file', 'yr_rules_scan_fd', 'yr_rules_scan_proc',
          'yr_rules_scan_mem_blocks', 'yr_scanner_scan_mem', 'yr_scanner_scan_file',
          'yr_scanner_scan_fd', 'yr_scanner_scan_proc', 'yr_scanner_scan_mem_blocks')
PAIRS = {
    'yr_rules_scan_file': ('yr_filemap_map', 'yr_filemap_unmap'),
    'yr_rules_scan_fd': ('yr_filemap_map_fd', 'yr_filemap_unmap_fd'),
    'yr_scanner_scan_file': ('yr_filemap_map', 'yr_filemap_unmap'),
    'yr_scanner_scan_fd': ('yr_filemap_map_fd', 'yr_filemap_unmap_fd'),
    'yr_scanner_scan_proc': ('yr_process_open_iterator', 'yr_process_close_iterator'),
    'yr_rules_scan_mem_blocks': ('yr_scanner_create', 'yr_scanner_destroy'),
    'yr_rules_scan_mem': ('yr_scanner_create', 'yr_scanner_destroy'),
    'yr_rules_scan_proc': ('yr_process_open_iterator', 'yr_process_close_iterator'),
}


def r13_1(ctx):
    prog = ctx.prog
    cg = CallGraph(prog)
    for target in ONLY_FROM_FUNNEL:
        callers = set()
        for f in prog.fns():
            if not f.file.startswith('libyara/') and not ctx.fixture:
                continue
            for c, t, g in cg.callees(f):
                if t == target:
                    callers.add(f.name)
        ctx.ob('R13.1', '%s:called-only-from-funnel' % target, callers == set([FUNNEL]),
               'libyara', '%s is called only from %s' % (target, FUNNEL) if callers == set([FUNNEL])
               else '%s is called from %s: an entry point bypasses the common scan path' % (
                   target, ', '.join(sorted(callers)) or 'nowhere'))
    for api in PUBLIC:
        f = prog.fn(api)
        if f is None:
            ctx.require(ctx.fixture, 'public API %s not found' % api)
            continue
        reach = set(g.name for g in cg.reachable([f]))
        ok = FUNNEL in reach or api == FUNNEL
        ctx.ob('R13.1', '%s:reaches-funnel' % api, ok, '%s:%s' % (f.file, f.line),
               '%s funnels into %s' % (api, FUNNEL) if ok else
               '%s does not reach %s' % (api, FUNNEL))
    for api, (acq, rel) in sorted(PAIRS.items()):
        f = prog.fn(api)
        if f is None:
            continue
        acqs = [c for c in f.calls() if c.get('callee') == acq]
        if not acqs:
            ctx.ob('R13.1', '%s:%s/%s-paired' % (api, acq, rel), False, '%s:%s' % (f.file, f.line),
                   '%s no longer calls %s' % (api, acq))
            continue
        a = acqs[0]
        nb = f.block_of(a)
        bad = []
        ct = paths.CondTracker(f, extra=['result', '__error'])
        from .C16 import call_use
        u = call_use(f, a)
        carrier = u[1] if isinstance(u, tuple) else None
        init = set()
        if carrier:
            init.add(('pend', carrier))
        else:
            init.add('own')

        def step(n, facts):
            if n['k'] == 'decl' and n.get('c'):
                src = cu.strip_casts(f, f.kid(n, 0))
                if src is not None and src['k'] == 'ref' and ('pend', src['name']) in facts:
                    facts = frozenset(facts) | {('pend', n['name'])}
            if n['k'] == 'call' and n.get('callee') == rel:
                return frozenset(x for x in facts if x != 'own' and not isinstance(x, tuple))
            if n['k'] == 'ret':
                if 'own' in facts:
                    bad.append(n)
                return None
            return facts

        def edge(b, term, cond, idx, succ, facts):
            pol = paths.branch_polarity(f, term, idx)
            if pol is None or cond is None:
                return facts
            imp = ct.implied(cond, pol)
            if imp is not None and ('pend', imp[1]) in facts and imp[2] == 0:
                rest = frozenset(x for x in facts if not (isinstance(x, tuple) and x[0] == 'pend'))
                return rest | ({'own'} if imp[0] == 'eq' else set())
            return facts
        paths.explore(f, init, step, edge, start_block=nb[0], start_index=nb[1] + 1, max_states=64)
        ctx.ob('R13.1', '%s:%s/%s-paired' % (api, acq, rel), not bad,
               f.loc(bad[0]) if bad else f.loc(a),
               'every path after a successful %s passes %s' % (acq, rel) if not bad else
               '%s returns after a successful %s without %s' % (api, acq, rel))


def r13_2(ctx):
    prog = ctx.prog
    f = ctx.fn(FUNNEL, 'libyara/scanner.c')
    nr = prog.macro_value('ERROR_BLOCK_NOT_READY')
    fb = fresh_branch(ctx, f)
    ctx.ob('R13.2', 'fresh-initialisation:guarded-by-last_error', fb is not None,
           '%s:%s' % (f.file, f.line),
           'fresh-scan initialisation is in the branch taken when last_error != '
           'ERROR_BLOCK_NOT_READY' if fb is not None else
           'the fresh-scan / continuation split on iterator->last_error is gone')
    if fb is not None:
        # first() in the fresh branch, next() in the continuation branch
        def iter_calls(node):
            out = []
            for x in f.walk(node):
                if x['k'] == 'call' and 'callee' not in x:
                    m = cu.strip_casts(f, f.kid(x, 0))
                    if m is not None and m['k'] == 'member' and m['fld'] in ('first', 'next'):
                        out.append(m['fld'])
            return out
        parent_if = f.parent(fb)
        ks = f.kids(parent_if)
        other = ks[1] if ks[2] is fb else ks[2]
        ok = iter_calls(fb) == ['first'] and iter_calls(other) == ['next']
        ctx.ob('R13.2', 'continuation:next-not-first', ok, f.loc(parent_if),
               'a continuation resumes with next(), a fresh scan starts with first()' if ok else
               'fresh branch calls %s, continuation branch calls %s' % (
                   iter_calls(fb), iter_calls(other)))
        # notebook creation / required_eval seeding only in the fresh branch
        for callee in ('yr_notebook_create',):
            sites = [c for c in f.calls() if c.get('callee') == callee]
            ok = bool(sites) and all(f.is_ancestor(fb, c) for c in sites)
            ctx.ob('R13.2', '%s:only-on-fresh-scan' % callee, ok, f.loc(sites[0]) if sites else f.file,
                   '%s happens only when a scan starts afresh' % callee if ok else
                   '%s also runs on a continuation: matches collected before the '
                   'interruption are lost' % callee)
    # state accumulated block by block is not re-initialised on a continuation
    if fb is not None:
        from ..effects import Effects
        cg = CallGraph(prog)
        E = Effects(prog, cg)
        T = E.transitive()
        loop = None
        for n in f.all_nodes():
            if n['k'] in ('while', 'for') and not f.is_ancestor(fb, n):
                c = f.kid(n, 0 if n['k'] == 'while' else 1)
                if c is not None and 'block' in f.show(c) and \
                        any(x['k'] == 'call' and x.get('callee') == '_yr_scanner_scan_mem_block'
                            for x in f.walk(n)):
                    loop = n
        ctx.ob('R13.2', 'block-loop:found', loop is not None, '%s:%s' % (f.file, f.line),
               'the loop over the memory blocks is identified' if loop is not None else
               'no loop over the blocks calling _yr_scanner_scan_mem_block')
        if loop is not None:
            acc = {}
            for n in f.walk(loop):
                if n['k'] == 'bin' and n['op'].endswith('=') and n['op'] not in ('==', '!=', '<=', '>='):
                    l = cu.strip_casts(f, f.kid(n, 0))
                    if l is not None and l['k'] == 'member' and l.get('rec') == 'YR_SCAN_CONTEXT':
                        acc.setdefault(l['fld'], f.loc(n))
                if n['k'] == 'call' and n.get('callee'):
                    g = prog.fn(n['callee'], f.tu)
                    if g is not None:
                        for e, w in T[(g.tu.name, g.name)].items():
                            if e[0] == 'field' and e[1] == 'YR_SCAN_CONTEXT':
                                acc.setdefault(e[2].replace('[]', '').split('.')[0], w[0].loc(w[1]))
            ctx.require(len(acc) >= 3 or ctx.fixture, 'only %d scanner fields accumulate during the block loop' % len(acc))
            bad = []
            for n in f.all_nodes():
                if n['k'] == 'bin' and n['op'] == '=' and not f.is_ancestor(loop, n) and \
                        not f.is_ancestor(fb, n) and n.get('l', 0) < loop.get('l', 0):
                    l = cu.strip_casts(f, f.kid(n, 0))
                    if l is not None and l['k'] == 'member' and l.get('rec') == 'YR_SCAN_CONTEXT' \
                            and l['fld'] in acc:
                        bad.append((n, l['fld']))
            ctx.ob('R13.2', 'accumulated-state:not-reset-on-continuation', not bad,
                   f.loc(bad[0][0]) if bad else f.loc(loop),
                   'no field that the block loop accumulates (%d fields) is assigned before the loop '
                   'outside the fresh-scan branch' % len(acc) if not bad else
                   'scanner->%s is (re)assigned here on every call, continuations included, although '
                   'the block loop accumulates it (%s): what was computed before the suspension is '
                   'lost when the scan resumes' % (bad[0][1], acc[bad[0][1]]))
    # cleanup under result != ERROR_BLOCK_NOT_READY
    cleans = [c for c in f.calls() if c.get('callee') == '_yr_scanner_clean_matches'
              and (fb is None or not f.is_ancestor(fb, c))]
    ok = bool(cleans)
    for c in cleans:
        guarded = False
        for a in f.ancestors(c):
            if a['k'] == 'if':
                cnd = f.kid(a, 0)
                if cnd is not None and cnd['k'] == 'bin' and cnd['op'] == '!=' and \
                        f.show(f.kid(cnd, 0)) == 'result' and cu.const_of(f.kid(cnd, 1)) == nr:
                    guarded = True
        ok = ok and guarded
    ctx.ob('R13.2', 'end-of-scan-cleanup:skipped-when-suspended', ok,
           f.loc(cleans[0]) if cleans else f.file,
           'matches are kept when the scan is suspended with ERROR_BLOCK_NOT_READY and cleaned '
           'otherwise' if ok else
           'the end-of-scan cleanup is no longer conditional on result != ERROR_BLOCK_NOT_READY: '
           'a resumed scan loses (or a finished scan keeps) its matches')
    # nobody else clears matches
    callers = set()
    for g in prog.fns():
        for c in g.calls():
            if c.get('callee') == '_yr_scanner_clean_matches':
                callers.add(g.name)
    ctx.ob('R13.2', 'clean_matches:who-may-call', callers <= set([FUNNEL]), 'libyara/scanner.c',
           'matches are cleared only by %s' % FUNNEL if callers <= set([FUNNEL]) else
           'matches are also cleared by %s' % ', '.join(sorted(callers - set([FUNNEL]))))


def r13_3(ctx):
    prog = ctx.prog
    n = 0
    for f in prog.fns():
        if not f.file.startswith('libyara/') and not ctx.fixture:
            continue
        walks = []
        for c in f.calls():
            if 'callee' in c:
                continue
            m = cu.strip_casts(f, f.kid(c, 0))
            if m is not None and m['k'] == 'member' and m['fld'] in ('first', 'next') and \
                    m.get('rec') == 'YR_MEMORY_BLOCK_ITERATOR':
                walks.append(c)
        if not walks:
            continue
        n += 1
        reads_err = any(x['k'] == 'member' and x['fld'] == 'last_error' and
                        x.get('rec') == 'YR_MEMORY_BLOCK_ITERATOR' for x in f.all_nodes())
        ctx.ob('R13.3', '%s:consults-last_error' % f.name, reads_err, f.loc(walks[0]),
               'walks the block iterator and reads iterator->last_error' if reads_err else
               '%s walks the block iterator and treats a NULL block as end of data without '
               'reading iterator->last_error: a not-ready block during rule evaluation is '
               'silently taken for the end of the data' % f.name)
    ctx.count('block_iterator_walkers', n)


FIXTURES = {
    'R13.1': {'src': 'C13/walk.c', 'run': r13_1, 'expect': 'yr_execute_code:called-only-from-funnel'},
    'R13.3': {'src': 'C13/walk.c', 'run': r13_3, 'expect': 'total_size:consults-last_error',
              'expect_ok': 'yr_scanner_scan_mem_blocks:consults-last_error'},
}


def run(ctx):
    r13_1(ctx)
    ctx.floor('R13.1', 14)
    r13_2(ctx)
    ctx.floor('R13.2', 7)
    r13_3(ctx)
    ctx.floor('R13.3', 8)

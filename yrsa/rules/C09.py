"""C09 — concurrent scans that share one rule set are race-free.

Decides (DESIGN.md §4 C09) which state scan code can write and under which
lock; if no scan-reachable library function writes anything reachable from
the shared YR_RULES, nor an unprotected global, two scans cannot interfere.

  R9.1 shared rule data is read-only in S (S = everything reachable from the
       public scan API through direct calls and resolved function pointers):
       no store to a field of, and no mem* write over, the shared record
       types; arena mutators are reached only on a private arena;
  R9.2 every write to a mutable global in S holds the lock recorded for that
       global, or the global is in the frozen init-only / out-of-scope table;
  R9.3 signal-handler install/uninstall discipline: every access to the
       handler globals is inside exception_handler_mutex, and the use count
       is decremented on every path after it was incremented;
  R9.4 a scanner snapshots externals by value (no pointer into the shared
       external table is kept in the scanner's objects).
Not decided: equality of each scan's report with a solo run as a trace
statement; races inside user callbacks/iterators; OpenSSL internals.
"""
from .. import cfgutil as cu
from .. import paths
from ..callgraph import CallGraph
from ..effects import Effects

LEVEL = 'other'
EXPLANATION = (
    'Effect (may-write) analysis over the call graph with field-resolved '
    'function pointers: the write set of every function reachable from the '
    'public scan API is intersected with the shared record types and the '
    'mutable globals; must-hold lockset analysis on every access to the '
    'signal-handler globals; increment/decrement pairing of the handler use '
    'count on all paths. Decides "who may write what under which lock", not '
    'schedules.')
ASSUMPTIONS = [
    'type-based aliasing: a store through T* may touch any T (DESIGN A2)',
    'user callbacks, user block iterators and OpenSSL are outside the claim',
    'yr_rule_disable/enable and yr_rules_define_* mutate shared data and are '
    'documented as not callable during scans (listed in evidence, not in S)',
]

SCAN_API = ('yr_rules_scan_mem', 'yr_rules_scan_file', 'yr_rules_scan_fd',
            'yr_rules_scan_proc', 'yr_rules_scan_mem_blocks', 'yr_scanner_scan_mem',
            'yr_scanner_scan_file', 'yr_scanner_scan_fd', 'yr_scanner_scan_proc',
            'yr_scanner_scan_mem_blocks', 'yr_scanner_create', 'yr_scanner_destroy')

SHARED_TYPES = ('YR_RULES', 'YR_RULE', 'YR_STRING', 'YR_META', 'YR_NAMESPACE',
                'YR_EXTERNAL_VARIABLE', 'YR_AC_MATCH', 'YR_SUMMARY', 'YR_ARENA',
                'YR_ARENA_BUFFER', 'YR_RELOC', 'RE', 'YR_AC_TRANSITION')

# arena mutators may be reached from S only on an arena created in the same
# function (exec.c's per-evaluation object arena)
ARENA_TYPES = ('YR_ARENA', 'YR_ARENA_BUFFER', 'YR_RELOC')

GLOBAL_LOCK = {
    'exception_handler_usecount': 'exception_handler_mutex',
    'old_sigbus_exception_handler': 'exception_handler_mutex',
    'old_sigsegv_exception_handler': 'exception_handler_mutex',
}
GLOBAL_EXEMPT = {
    'page_size': 'proc/linux.c: process scanning only (outside C09\'s quantifier: memory '
                 'and files); idempotent write of sysconf(_SC_PAGESIZE)',
}
INIT_ONLY = {
    'yr_lowercase': 'filled by yr_initialize', 'yr_altercase': 'filled by yr_initialize',
    'yr_cfgs': 'yr_initialize / yr_set_configuration (documented: before scanning)',
    'init_count': 'yr_initialize / yr_finalize',
    'yr_yyfatal_trampoline_tls': 'TLS key created by yr_initialize',
    'yr_trycatch_trampoline_tls': 'TLS key created by yr_initialize',
    'yr_modules_table': 'module registry: const after static initialisation (load/unload '
                        'callbacks write per-scan objects, not the table)',
}


def scan_reachable(ctx, cg):
    fns = cg.reachable([r for r in SCAN_API if ctx.prog.fn(r) is not None])
    lib = [f for f in fns if f.file.startswith('libyara/') or ctx.fixture]
    ctx.require(len(lib) > 300 or ctx.fixture,
                'scan-reachable set has only %d library functions' % len(lib))
    return lib


def r9_1(ctx, cg, E, S):
    prog = ctx.prog
    n_fn = 0
    viol = 0
    arena_mut = set()
    for f in S:
        key = (f.tu.name, f.name)
        n_fn += 1
        bad = []
        for e, n in E.direct[key]:
            if e[0] in ('field', 'mem') and e[1] in SHARED_TYPES:
                if e[1] in ARENA_TYPES and f.file.endswith('arena.c'):
                    arena_mut.add(f.name)
                    continue
                bad.append((e, n))
        if bad:
            seen = set()
            for e, n in bad:
                k = '%s:writes:%s.%s' % (f.name, e[1], e[2] if len(e) > 2 else '*')
                if k in seen:
                    continue
                seen.add(k)
                viol += 1
                ctx.ob('R9.1', k, False, f.loc(n),
                       'scan-reachable function %s writes shared rule data (%s): two '
                       'scanners sharing the rules race on it' % (f.name, f.show(n)[:70]))
        else:
            ctx.ob('R9.1', '%s:no-shared-write' % f.name, True, '%s:%s' % (f.file, f.line),
                   'writes no field of a shared record type')
    # arena mutators: only on a private arena
    T = E.transitive()
    mutators = set(f.name for f in prog.fns() if f.file.endswith('arena.c') and any(
        e[0] in ('field', 'mem') and e[1] in ARENA_TYPES for e in T[(f.tu.name, f.name)]))
    for f in S:
        if f.file.endswith('arena.c'):
            continue
        for c in f.calls():
            if c.get('callee') not in mutators or c.get('callee') == 'yr_arena_create':
                continue        # creating a fresh arena touches nothing shared
            a0 = cu.strip_casts(f, f.call_args(c)[0]) if f.call_args(c) else None
            private = False
            txt = f.show(a0) if a0 is not None else '?'
            if a0 is not None:
                v = a0
                if a0['k'] == 'un' and a0['op'] == '&':
                    v = f.kid(a0, 0)
                if v is not None and v['k'] == 'ref' and v.get('dk') == 'local':
                    # created in this function
                    for c2 in f.calls():
                        if c2.get('callee') == 'yr_arena_create':
                            for a in f.call_args(c2):
                                a = cu.strip_casts(f, a)
                                if a is not None and a['k'] == 'un' and a['op'] == '&' and \
                                        f.kid(a, 0) is not None and f.kid(a, 0).get('name') == v['name']:
                                    private = True
            ctx.ob('R9.1', '%s:%s(%s):private-arena' % (f.name, c['callee'], txt[:30]),
                   private, f.loc(c),
                   'arena mutator called on an arena created in the same function' if private else
                   'scan-reachable code mutates an arena that is not private to the call '
                   '(%s): the rules\' arena is shared by all scanners' % txt)
    ctx.count('scan_reachable_library_functions', n_fn)
    mut_out = sorted(f.name for f in prog.fns() if f.file.startswith('libyara/') and
                     f.name.startswith(('yr_rule_disable', 'yr_rule_enable', 'yr_rules_define_'))
                     and any(e[0] in ('field', 'mem') and e[1] in SHARED_TYPES
                             for e in T[(f.tu.name, f.name)]))
    ctx.note('mutators of shared rule data outside S (documented as not callable during '
             'scans): %s' % ', '.join(mut_out))


def r9_2(ctx, cg, E, S):
    prog = ctx.prog
    globs = {}
    for tu in prog.tus.values():
        if not tu.name.startswith('libyara/') and not ctx.fixture:
            continue
        for g in tu.globals:
            if g.get('extern_decl') and not g.get('has_init'):
                continue
            f = tu.files[g['file']] if isinstance(g.get('file'), int) else ''
            if not (f.startswith('libyara/') or ctx.fixture):
                continue
            if g.get('const') or g.get('tls'):
                continue
            if '(' in g.get('type', '') and ')' in g.get('type', '') and 'const' in g.get('type', ''):
                continue
            globs.setdefault(g['name'], g)
    writers = {}
    for f in S:
        for e, n in E.direct[(f.tu.name, f.name)]:
            if e[0] == 'global':
                writers.setdefault(e[1], []).append((f, n))
    for name in sorted(globs):
        g = globs[name]
        ws = writers.get(name, [])
        where = 'global %s' % name
        if not ws:
            ctx.ob('R9.2', '%s:not-written-in-S' % name, True, where,
                   'mutable global %s (%s) is not written by scan-reachable code' % (
                       name, g.get('type')))
            continue
        if name in GLOBAL_EXEMPT:
            ctx.ob('R9.2', '%s:exempt' % name, True, ws[0][0].loc(ws[0][1]),
                   'written in S; frozen exception: %s' % GLOBAL_EXEMPT[name])
            continue
        lock = GLOBAL_LOCK.get(name)
        if lock is None:
            f, n = ws[0]
            ctx.ob('R9.2', '%s:unprotected-write' % name, False, f.loc(n),
                   'scan-reachable function %s writes global %s and no lock is recorded '
                   'for it' % (f.name, name))
            continue
        # lock held at every write: decided by R9.3's lockset pass
        ctx.ob('R9.2', '%s:lock-recorded' % name, True, ws[0][0].loc(ws[0][1]),
               'written in S under %s (checked by R9.3)' % lock)
    ctx.count('mutable_globals', len(globs))


LOCK_FUNCS = {'pthread_mutex_lock': 'lock', 'pthread_mutex_unlock': 'unlock',
              'yr_mutex_lock': 'lock', 'yr_mutex_unlock': 'unlock'}


def _mutex_name(f, arg):
    a = cu.strip_casts(f, arg)
    if a is not None and a['k'] == 'un' and a['op'] == '&':
        a = f.kid(a, 0)
    return f.show(a) if a is not None else '?'


def r9_3(ctx, S):
    prog = ctx.prog
    n_acc = 0
    for f in prog.fns():
        if not f.file.startswith('libyara/') and not ctx.fixture:
            continue
        touches = [n for n in f.all_nodes() if n['k'] == 'ref' and n['name'] in GLOBAL_LOCK
                   and n.get('dk') in ('global', 'slocal')]
        if not touches:
            continue
        problems = {}
        checked = set()

        def step(n, facts):
            if n['k'] == 'call' and n.get('callee') in LOCK_FUNCS:
                args = f.call_args(n)
                m = _mutex_name(f, args[0]) if args else '?'
                if LOCK_FUNCS[n['callee']] == 'lock':
                    return facts | {('held', m)}
                return frozenset(x for x in facts if x != ('held', m))
            if n['k'] == 'ref' and n['name'] in GLOBAL_LOCK and n.get('dk') in ('global', 'slocal'):
                need = GLOBAL_LOCK[n['name']]
                checked.add(n['i'])
                if ('held', need) not in facts:
                    problems.setdefault(n['name'], n)
            if n['k'] == 'ret':
                return None
            return facts
        try:
            paths.explore(f, set(), step, None, max_states=64)
        except paths.Budget:
            ctx.require(False, 'R9.3: lockset budget exceeded in %s' % f.name)
        n_acc += len(checked)
        for gname in sorted(set(n['name'] for n in touches)):
            if gname in problems:
                n = problems[gname]
                ctx.ob('R9.3', '%s:%s:lock-held' % (f.name, gname), False, f.loc(n),
                       '%s is accessed in %s on a path where %s is not held' % (
                           gname, f.name, GLOBAL_LOCK[gname]))
            else:
                ctx.ob('R9.3', '%s:%s:lock-held' % (f.name, gname), True,
                       '%s:%s' % (f.file, f.line),
                       'every access to %s in %s holds %s' % (gname, f.name, GLOBAL_LOCK[gname]))
        # use-count balance: after ++ every path reaches -- before the function ends
        incs = [n for n in f.all_nodes() if n['k'] == 'un' and n['op'] in ('post++', '++')
                and f.kid(n, 0) is not None and f.kid(n, 0).get('name') == 'exception_handler_usecount']
        for k_i, inc in enumerate(incs):
            nb = f.block_of(inc)
            if nb is None:
                continue
            bad = []

            def step2(n, facts):
                if n['k'] == 'un' and n['op'] in ('post--', '--') and f.kid(n, 0) is not None \
                        and f.kid(n, 0).get('name') == 'exception_handler_usecount':
                    return None
                if n['k'] == 'ret':
                    bad.append(n)
                    return None
                return facts

            def edge2(b, term, cond, idx, succ, facts):
                if succ == f.exit:
                    bad.append(inc)
                    return None
                return facts
            paths.explore(f, set(), step2, edge2, start_block=nb[0], start_index=nb[1] + 1,
                          max_states=16)
            ctx.ob('R9.3', '%s:usecount-balanced#%d' % (f.name, k_i + 1), not bad,
                   f.loc(bad[0]) if bad else f.loc(inc),
                   'the handler use count incremented at %s is decremented on every path' %
                   f.loc(inc) if not bad else
                   'a path leaves %s after exception_handler_usecount++ (%s) without the '
                   'matching decrement: the signal handlers stay installed and the TLS '
                   'jump buffer points into a dead frame' % (f.name, f.loc(inc)))
        # and the converse: every decrement undoes an increment of the same activation
        decs = [n for n in f.all_nodes() if n['k'] == 'un' and n['op'] in ('post--', '--')
                and f.kid(n, 0) is not None and f.kid(n, 0).get('name') == 'exception_handler_usecount']
        if decs:
            bad3 = []

            def step3(n, facts):
                if n['k'] == 'un' and f.kid(n, 0) is not None and \
                        f.kid(n, 0).get('name') == 'exception_handler_usecount':
                    if n['op'] in ('post++', '++'):
                        return facts | {'inc'}
                    if n['op'] in ('post--', '--'):
                        if 'inc' not in facts:
                            bad3.append(n)
                        return frozenset(x for x in facts if x != 'inc')
                if n['k'] == 'ret':
                    return None
                return facts
            paths.explore(f, set(), step3, None, max_states=256)
            ctx.ob('R9.3', '%s:usecount-decrement-matches-increment' % f.name, not bad3,
                   f.loc(bad3[0]) if bad3 else f.loc(decs[0]),
                   'every decrement of the handler use count follows an increment on the same path'
                   if not bad3 else
                   'exception_handler_usecount is decremented here on a path that did not increment '
                   'it: with two overlapping scans the count reaches 0 (or goes negative) while a scan '
                   'still relies on the signal handlers, which are then uninstalled')
    ctx.count('handler_global_accesses', n_acc)


def r9_4(ctx):
    prog = ctx.prog
    f = ctx.fn('yr_object_from_external_variable', 'libyara/object.c')
    # no pointer member of the external is stored as-is into the object
    bad = []
    n = 0
    for a in f.all_nodes():
        if a['k'] == 'bin' and a['op'] == '=':
            r = cu.strip_casts(f, f.kid(a, 1))
            if r is not None and r['k'] == 'member' and '*' in (r.get('t') or ''):
                root, path = cu.member_path(f, r)
                if root is not None and 'YR_EXTERNAL_VARIABLE' in (root.get('t') or ''):
                    l = f.kid(a, 0)
                    if l is not None and l['k'] == 'member':
                        bad.append(a)
    # string values go through yr_object_set_string (copies)
    copies = [c for c in f.calls() if c.get('callee') == 'yr_object_set_string']
    ctx.ob('R9.4', 'yr_object_from_external_variable:by-value', not bad and bool(copies),
           '%s:%s' % (f.file, f.line),
           'externals are copied into scanner-owned objects (string through '
           'yr_object_set_string)' if not bad and copies else
           'a pointer into the shared external table is stored in a scanner object')
    g = ctx.fn('yr_scanner_create', 'libyara/scanner.c')
    # the snapshot loop walks ext_vars_table and adds one object per entry
    has_loop = False
    for h in cu.family(prog, g):
        for n in h.all_nodes():
            if n['k'] in ('while', 'for', 'do'):
                calls = [c.get('callee') for c in h.walk(n) if c['k'] == 'call']
                if 'yr_object_from_external_variable' in calls and 'yr_hash_table_add' in calls:
                    has_loop = True
    ctx.ob('R9.4', 'yr_scanner_create:snapshot-loop', has_loop, '%s:%s' % (g.file, g.line),
           'yr_scanner_create creates and registers one object per external' if has_loop else
           'yr_scanner_create no longer snapshots every external')
    # scanner code never stores a scan context / scanner pointer in a global
    cg = CallGraph(prog)
    for f2 in prog.fns():
        if not f2.file.startswith('libyara/'):
            continue
        for a in f2.all_nodes():
            if a['k'] == 'bin' and a['op'] == '=':
                l = cu.strip_casts(f2, f2.kid(a, 0))
                if l is not None and l['k'] == 'ref' and l.get('dk') in ('global', 'slocal'):
                    r = f2.kid(a, 1)
                    if r is not None and (r.get('prec') in ('YR_SCAN_CONTEXT', 'YR_SCANNER')):
                        ctx.ob('R9.4', '%s:context-in-global:%s' % (f2.name, l['name']), False,
                               f2.loc(a), 'a scan context pointer is stored in global %s' % l['name'])


def _fx(which):
    def runner(ctx):
        cg = CallGraph(ctx.prog)
        E = Effects(ctx.prog, cg)
        S = scan_reachable(ctx, cg)
        if which == 1:
            r9_1(ctx, cg, E, S)
        elif which == 2:
            r9_2(ctx, cg, E, S)
        else:
            r9_3(ctx, S)
    return runner


FIXTURES = {
    'R9.1': {'src': 'C09/race.c', 'run': _fx(1), 'expect': 'verify:writes:YR_STRING.flags',
             'expect_ok': 'clean_helper:no-shared-write'},
    'R9.2': {'src': 'C09/race.c', 'run': _fx(2), 'expect': 'hit_counter:unprotected-write'},
    'R9.3': {'src': 'C09/race.c', 'run': _fx(3), 'expect': 'exception_handler_usecount:lock-held'},
}


# clocks whose reading depends on what other threads of the process do
PROCESS_WIDE_CLOCKS = {2: 'CLOCK_PROCESS_CPUTIME_ID'}
THREAD_INDEPENDENT_CLOCKS = {0: 'CLOCK_REALTIME', 1: 'CLOCK_MONOTONIC', 3: 'CLOCK_THREAD_CPUTIME_ID',
                             4: 'CLOCK_MONOTONIC_RAW', 5: 'CLOCK_REALTIME_COARSE',
                             6: 'CLOCK_MONOTONIC_COARSE', 7: 'CLOCK_BOOTTIME'}
PROCESS_WIDE_CALLS = {'clock': 'processor time of the whole process', 'times': 'process times',
                      'getrusage': 'resource usage (RUSAGE_SELF is process-wide)'}


def r9_5(ctx, S):
    """scan code measures time with clocks that other threads cannot advance"""
    n = 0
    for f in S:
        if not f.file.startswith('libyara/') and not ctx.fixture:
            continue
        k = 0
        for c in f.calls():
            cal = c.get('callee')
            if cal == 'clock_gettime':
                v = cu.const_of(cu.strip_casts(f, f.call_args(c)[0]))
                n += 1
                ok = v in THREAD_INDEPENDENT_CLOCKS
                ctx.ob('R9.5', '%s:clock_gettime#%d:thread-independent-clock' % (f.name, k), ok, f.loc(c),
                       'reads %s' % THREAD_INDEPENDENT_CLOCKS.get(v) if ok else
                       'reads clock %s: its value is advanced by every running thread of the process, so a '
                       "scanner's timeout is consumed by the other scans running concurrently" % (
                           PROCESS_WIDE_CLOCKS.get(v, 'id %s' % v)))
                k += 1
            elif cal in PROCESS_WIDE_CALLS:
                n += 1
                arg = cu.const_of(cu.strip_casts(f, f.call_args(c)[0])) if f.call_args(c) else None
                ok = cal == 'getrusage' and arg == 1      # RUSAGE_THREAD
                ctx.ob('R9.5', '%s:%s#%d:thread-independent-clock' % (f.name, cal, k), ok, f.loc(c),
                       'per-thread usage' if ok else
                       '%s() returns %s: shared between concurrent scans' % (cal, PROCESS_WIDE_CALLS[cal]))
                k += 1
    ctx.count('time_sources_read_by_scan_code', n)


def run(ctx):
    cg = CallGraph(ctx.prog)
    E = Effects(ctx.prog, cg)
    S = scan_reachable(ctx, cg)
    r9_1(ctx, cg, E, S)
    ctx.floor('R9.1', 300)
    r9_2(ctx, cg, E, S)
    ctx.floor('R9.2', 4)
    r9_3(ctx, S)
    ctx.floor('R9.3', 5)
    r9_4(ctx)
    ctx.floor('R9.4', 2)
    r9_5(ctx, S)
    ctx.floor('R9.5', 2)

"""C03 — regular-expression strings and `matches` agree with regex semantics.

Which texts a regexp matches is decided by the run of the regexp VM over
run-time data and is NOT decided here.  Decided is the agreement between the
writer and the readers of the regexp bytecode (DESIGN.md §4 C01–C03):
  R3.1 widths: for every RE_OPCODE_* the number of bytes the emitter writes
       (opcode + operands, through _yr_emit_inst*/_yr_emit_split and the
       direct arena write of the class bitmap) equals every constant by which
       yr_re_exec, _yr_re_fiber_sync and yr_re_fast_exec advance the
       instruction pointer in the case of that opcode, and every operand read
       `ip + c` starts at an operand boundary the writer produced and has the
       writer's operand width;
  R3.2 exhaustiveness: every opcode the emitter can produce has a case in the
       general executor (yr_re_exec or the fiber synchroniser it relies on);
  R3.3 node kinds: every RE_NODE_* kind the two grammars (and the helper
       constructors) can create has a case in _yr_re_emit and in
       _yr_atoms_extract_from_re's traversal.
"""
from .. import cfgutil as cu
from .. import paths
from .C14 import canon

LEVEL = 'other'
USES_PARSERS = True
EXPLANATION = (
    'Writer/reader agreement on the regexp bytecode: operand layouts are '
    'computed from the emit helpers (sizes handed to yr_arena_write_data) and '
    'from their call sites in _yr_re_emit, reader widths from the constant '
    'instruction-pointer advances and operand reads in every case group of '
    'the three executors; exhaustiveness of opcode cases and of RE_NODE kinds '
    'over what the grammars can create.')
ASSUMPTIONS = [
    'operand reads are recognised in the forms *(ip + c), yr_unaligned_{u,i}{16,32}(ip + c) and '
    '(T*)(ip + c); an operand read written differently is not width-checked (it still has to '
    'pass the advance check)',
]

EMIT_FN = '_yr_re_emit'
# kinds for which emitting no code is the right translation
NO_CODE_KINDS = {
    'RE_NODE_EMPTY': 'the empty alternative of `a|`: matches the empty string, there is nothing to emit; '
                     'the enclosing ALT emits the split/jump around it',
}
READERS = ('yr_re_exec', '_yr_re_fiber_sync', 'yr_re_fast_exec')
RE_CODE_SECTION = 'YR_RE_CODE_SECTION'


def helper_layouts(prog, fixture=False):
    """{helper: [sizes or ('param', index)]} for the _yr_emit_* helpers: the sizes handed
    to yr_arena_write_data in source order, a call of another emit helper standing for
    what that helper writes (with its size parameters bound to the arguments)"""
    fns = {}
    for f in prog.fns():
        if f.name.startswith('_yr_emit_') and (f.file == 'libyara/re.c' or fixture):
            fns[f.name] = f
    memo = {}

    def lay_of(f, depth=0):
        if f.name in memo:
            return memo[f.name]
        memo[f.name] = []
        lay = []
        pnames = [p['name'] for p in f.params]
        for c in sorted(f.calls(), key=lambda x: (x.get('l', 0), x['i'])):
            cal = c.get('callee')
            a = f.call_args(c)
            if cal == 'yr_arena_write_data':
                v = cu.const_of(cu.strip_casts(f, a[3]))
                if v is not None:
                    lay.append(v)
                else:
                    s_ = canon(f, a[3])
                    lay.append(('param', pnames.index(s_)) if s_ in pnames else None)
            elif cal in fns and cal != f.name and depth < 4:
                for x in lay_of(fns[cal], depth + 1):
                    if isinstance(x, tuple):
                        arg = cu.strip_casts(f, a[x[1]]) if x[1] < len(a) else None
                        v = cu.const_of(arg) if arg is not None else None
                        if v is not None:
                            lay.append(v)
                        elif arg is not None and arg['k'] == 'ref' and arg['name'] in pnames:
                            lay.append(('param', pnames.index(arg['name'])))
                        else:
                            lay.append(None)
                    else:
                        lay.append(x)
        memo[f.name] = lay
        return lay
    return {name: lay_of(f) for name, f in fns.items()}


def _opcodes_of(f, e):
    """RE_OPCODE_* names an opcode argument can evaluate to"""
    e = cu.strip_casts(f, e)
    if e is None:
        return []
    if e['k'] == 'cond':
        return _opcodes_of(f, f.kid(e, 1)) + _opcodes_of(f, f.kid(e, 2))
    if e.get('mn', '').startswith('RE_OPCODE_'):
        return [e['mn']]
    return [None]


def writer_layouts(ctx):
    """{opcode: set of layouts (tuple of field sizes incl. the opcode byte)}, sites"""
    prog = ctx.prog
    helpers = helper_layouts(prog, ctx.fixture)
    ctx.require(len(helpers) >= 6 or ctx.fixture, 'emit helpers not found')
    W = {}
    sites = {}
    for f in prog.fns():
        if f.file != 'libyara/re.c' and not ctx.fixture:
            continue
        if f.name.startswith('_yr_emit_'):
            continue
        calls = f.calls()
        for c in calls:
            cal = c.get('callee', '')
            if cal not in helpers:
                continue
            a = f.call_args(c)
            lay = []
            for x in helpers[cal]:
                if isinstance(x, tuple):
                    v = cu.const_of(cu.strip_casts(f, a[x[1]]))
                    lay.append(v)
                else:
                    lay.append(x)
            # direct writes to the code section that follow in the same case group
            extra = _trailing_direct_writes(f, c)
            lay = tuple(lay + extra)
            for op in _opcodes_of(f, a[1]):
                W.setdefault(op, set()).add(lay)
                sites.setdefault(op, (f, c))
    return W, sites


def _trailing_direct_writes(f, call):
    """sizes of yr_arena_write_data(.., RE code section, ..) calls that share
    the switch case group of `call` and come after it"""
    grp = None
    for sw in cu.find_switches(f):
        for labels, stmts in cu.switch_groups(f, sw):
            nodes = list(cu.group_nodes(f, stmts))
            if any(n is call for n in nodes):
                grp = nodes
    if grp is None:
        return []
    out = []
    after = False
    for n in grp:
        if n is call:
            after = True
            continue
        if after and n['k'] == 'call' and n.get('callee') == 'yr_arena_write_data':
            a = f.call_args(n)
            sec = cu.strip_casts(f, a[1])
            if sec is not None and sec.get('mn') == RE_CODE_SECTION:
                out.append(cu.const_of(cu.strip_casts(f, a[3])))
    return out


def _ip_vars(f):
    """names that denote the instruction pointer in a reader: locals/params/fields called ip"""
    return ('ip',)


def opcode_switches(ctx, f):
    """the switches of f that dispatch on a regexp opcode: recognised by their case
    labels (spelled with RE_OPCODE_* macros of the right value), not by the name of
    the variable they switch on"""
    out = []
    for sw in cu.find_switches(f):
        if cu.switch_cond(f, sw) is None:
            continue
        n = 0
        for labels, stmts in cu.switch_groups(f, sw):
            n += sum(1 for l in labels if l['k'] == 'case' and (l.get('mn') or '').startswith('RE_OPCODE_')
                     and l.get('v') == ctx.prog.macro_value(l['mn']))
        if n:
            out.append(sw)
    return out


def reader_cases(ctx, f):
    """[(opcode names of the group, nodes)] for every switch over an opcode in reader f"""
    out = []
    for sw in opcode_switches(ctx, f):
        for labels, stmts in cu.switch_groups(f, sw):
            ops = [l.get('mn') for l in labels if l['k'] == 'case' and l.get('mn', '').startswith('RE_OPCODE_')
                   and l.get('v') == ctx.prog.macro_value(l['mn'])]
            if ops:
                out.append((ops, list(cu.group_nodes(f, stmts)), labels))
    return out


def ip_designators(ctx, f):
    """what plays the instruction pointer in reader f: the thing whose dereference an
    opcode switch dispatches on (directly, or through a local that was assigned the
    dereference).  A set of ('ref', name) / ('member', field)."""
    cached = getattr(f, '_ip_roles', None)
    if cached is not None:
        return cached
    out = set()

    def designate(e):
        e = cu.strip_casts(f, e)
        if e is not None and e['k'] == 'un' and e['op'] == '*':
            x = cu.strip_casts(f, f.kid(e, 0))
            if x is not None and x['k'] == 'ref':
                out.add(('ref', x['name']))
            elif x is not None and x['k'] == 'member':
                out.add(('member', x['fld']))
    for sw in opcode_switches(ctx, f):
        c = cu.strip_casts(f, cu.switch_cond(f, sw))
        if c is None:
            continue
        designate(c)
        if c['k'] == 'ref':
            for n in f.all_nodes():
                if n['k'] == 'decl' and n.get('name') == c['name'] and n.get('c'):
                    designate(f.kid(n, 0))
                if n['k'] == 'bin' and n['op'] == '=':
                    l = cu.strip_casts(f, f.kid(n, 0))
                    if l is not None and l['k'] == 'ref' and l['name'] == c['name']:
                        designate(f.kid(n, 1))
    # a local instruction pointer is a copy of a fiber's: `ip = fiber->ip` makes that
    # member a designator too (and the other way round)
    for kind, name in list(out):
        if kind != 'ref':
            continue
        for n in f.all_nodes():
            l = r = None
            if n['k'] == 'bin' and n['op'] == '=':
                l, r = cu.strip_casts(f, f.kid(n, 0)), cu.strip_casts(f, f.kid(n, 1))
            elif n['k'] == 'decl' and n.get('c'):
                l, r = {'k': 'ref', 'name': n['name']}, cu.strip_casts(f, f.kid(n, 0))
            if l is None or r is None:
                continue
            for x, y in ((l, r), (r, l)):
                if x['k'] == 'ref' and x['name'] == name and y['k'] == 'member':
                    out.add(('member', y['fld']))
    f._ip_roles = out
    return out


def _is_ip(f, e, roles=None):
    e = cu.strip_casts(f, e)
    if e is None:
        return False
    roles = roles if roles is not None else (getattr(f, '_ip_roles', None) or set([('ref', 'ip'), ('member', 'ip')]))
    if e['k'] == 'ref':
        return ('ref', e['name']) in roles
    return e['k'] == 'member' and ('member', e['fld']) in roles


def r3_1(ctx):
    prog = ctx.prog
    W, sites = writer_layouts(ctx)
    ctx.require(len(W) >= 25 or ctx.fixture, 'only %d emitted opcodes found' % len(W))
    ctx.count('emitted_opcodes', len(W))
    for op, lays in sorted(W.items(), key=str):
        f, c = sites[op]
        if op is None:
            ctx.ob('R3.1', 'writer:opcode-known@%s' % f.loc(c), False, f.loc(c),
                   'an emit call passes an opcode that is not an RE_OPCODE_* constant')
            continue
        ok = len(lays) == 1 and None not in list(lays)[0]
        ctx.ob('R3.1', '%s:writer-layout' % op, ok, f.loc(c),
               'written as %s bytes' % '+'.join(str(x) for x in sorted(lays)[0]) if ok else
               'written with differing or non-constant layouts: %s' % sorted(lays, key=str))
    width = {op: sum(list(l)[0]) for op, l in W.items() if op and len(l) == 1 and None not in list(l)[0]}
    bounds = {}
    for op, l in W.items():
        if op in width:
            off, b = 0, {}
            for sz in list(l)[0]:
                b[off] = sz
                off += sz
            bounds[op] = b
    n_adv = 0
    for rname in READERS:
        f = prog.fn(rname, 'libyara/re.c')
        if f is None:
            ctx.require(ctx.fixture, 'reader %s not found' % rname)
            continue
        ip_designators(ctx, f)
        for ops, nodes, labels in reader_cases(ctx, f):
            advs = []
            reads = []
            for n in nodes:
                if n['k'] == 'bin' and n['op'] == '+=' and _is_ip(f, f.kid(n, 0)):
                    v = cu.const_of(cu.strip_casts(f, f.kid(n, 1)))
                    if v is not None:
                        advs.append((n, v))
                if n['k'] == 'bin' and n['op'] == '+' and _is_ip(f, f.kid(n, 0)):
                    cst = cu.const_of(cu.strip_casts(f, f.kid(n, 1)))
                    if cst is None:
                        continue
                    par = f.parent(n)
                    w = None
                    pc = par
                    tcast = None
                    while pc is not None and pc['k'] == 'cast':
                        tcast = pc
                        pc = f.parent(pc)
                    if pc is not None and pc['k'] == 'un' and pc['op'] == '*' and tcast is None:
                        w = 1
                    elif pc is not None and pc['k'] == 'call' and 'unaligned' in pc.get('callee', ''):
                        w = 2 if '16' in pc['callee'] else 4 if '32' in pc['callee'] else 8
                    elif tcast is not None and tcast.get('t', '').endswith('*'):
                        rec = tcast['t'].rstrip('* ').replace('const ', '').strip()
                        r = prog.records.get(rec)
                        w = r['size'] if r else None
                        if pc is not None and pc['k'] == 'un' and pc['op'] == '*' and w is None:
                            w = 1
                    if w is not None:
                        reads.append((n, cst, w))
            for op in ops:
                if op not in width:
                    continue
                for n, v in advs:
                    n_adv += 1
                    ok = v == width[op]
                    ctx.ob('R3.1', '%s:%s:advance@%d' % (rname, op, [x[0]['i'] for x in advs].index(n['i'])),
                           ok, f.loc(n),
                           'skips %d bytes = bytes written' % v if ok else
                           '%s advances the instruction pointer by %d in the case of %s, the emitter '
                           'writes %d bytes: every later instruction is decoded out of step' % (
                               rname, v, op, width[op]))
                for n, cst, w in reads:
                    b = bounds[op]
                    ok = cst in b and b[cst] == w
                    # a read of the next opcode (ip + width) is legitimate look-ahead
                    if cst >= width[op]:
                        continue
                    ctx.ob('R3.1', '%s:%s:operand@+%d' % (rname, op, cst), ok, f.loc(n),
                           'reads the %d-byte operand written at +%d' % (w, cst) if ok else
                           '%s reads %d byte(s) at ip+%d in the case of %s; the emitter\'s operand '
                           'boundaries are %s' % (rname, w, cst, op, sorted(b.items())))
    ctx.count('constant_ip_advances', n_adv)


def r3_2(ctx):
    prog = ctx.prog
    W, sites = writer_layouts(ctx)
    handled = set()
    per = {}
    for rname in ('yr_re_exec', '_yr_re_fiber_sync'):
        f = prog.fn(rname, 'libyara/re.c')
        if f is None:
            continue
        for ops, nodes, labels in reader_cases(ctx, f):
            handled |= set(ops)
            per.setdefault(rname, set()).update(ops)
    ctx.require(len(handled) >= 25 or ctx.fixture, 'only %d opcode cases found in the executor' % len(handled))
    for op in sorted(x for x in W if x):
        f, c = sites[op]
        ctx.ob('R3.2', '%s:has-executor-case' % op, op in handled, f.loc(c),
               '%s is handled by %s' % (op, ', '.join(r for r in per if op in per[r])) if op in handled else
               '%s can be emitted (here) but neither yr_re_exec nor _yr_re_fiber_sync has a case for '
               'it: the executor hits its default branch' % op)


def node_kinds_created(ctx):
    """{RE_NODE_x: (fn, call)} over every yr_re_node_create(<const>) in libyara"""
    prog = ctx.prog
    out = {}
    for f in prog.fns():
        if not f.file.startswith('libyara/') and not ctx.fixture:
            continue
        for c in f.calls():
            if c.get('callee') == 'yr_re_node_create':
                a = cu.strip_casts(f, f.call_args(c)[0])
                if a is not None and a.get('mn', '').startswith('RE_NODE_'):
                    out.setdefault(a['mn'], (f, c))
    return out


def _type_switch_cases(f):
    out = set()
    for sw in cu.find_switches(f):
        c = cu.switch_cond(f, sw)
        if c is None or not canon(f, c).endswith('->type'):
            continue
        for labels, stmts in cu.switch_groups(f, sw):
            for l in labels:
                if l['k'] == 'case' and l.get('mn', '').startswith('RE_NODE_'):
                    out.add(l['mn'])
    return out


def r3_3(ctx):
    prog = ctx.prog
    kinds = node_kinds_created(ctx)
    ctx.require(len(kinds) >= 20 or ctx.fixture, 'only %d RE_NODE kinds are created' % len(kinds))
    consumers = (('_yr_re_emit', 'libyara/re.c'), ('_yr_atoms_extract_from_re', 'libyara/atoms.c'))
    for cname, tu in consumers:
        g = prog.fn(cname, tu)
        if g is None:
            ctx.require(ctx.fixture, '%s not found' % cname)
            continue
        cases = _type_switch_cases(g)
        # the atom extractor treats every kind without a case as "no atom
        # here" through its default branch: only kinds that carry children
        # must be traversed explicitly
        for k, (f, c) in sorted(kinds.items()):
            if cname == '_yr_atoms_extract_from_re':
                continue
            if k in NO_CODE_KINDS and k not in cases:
                ctx.ob('R3.3', '%s:%s:has-case' % (cname, k), True, f.loc(c),
                       'exception: ' + NO_CODE_KINDS[k])
                continue
            ctx.ob('R3.3', '%s:%s:has-case' % (cname, k), k in cases, f.loc(c),
                   '%s handles %s' % (cname, k) if k in cases else
                   '%s is created here but %s has no case for it: no code is emitted for that part '
                   'of the expression' % (k, cname))
    # atoms: every kind that owns children (children_head / left-right) is traversed
    g = prog.fn('_yr_atoms_extract_from_re', 'libyara/atoms.c')
    if g is not None:
        cases = _type_switch_cases(g)
        emit = prog.fn('_yr_re_emit', 'libyara/re.c')
        with_children = set()
        if emit is not None:
            for sw in cu.find_switches(emit):
                c = cu.switch_cond(emit, sw)
                if c is None or not canon(emit, c).endswith('->type'):
                    continue
                for labels, stmts in cu.switch_groups(emit, sw):
                    names = [l.get('mn') for l in labels if l['k'] == 'case']
                    uses_children = any(n['k'] == 'member' and n['fld'] in ('children_head', 'children_tail')
                                        for n in cu.group_nodes(emit, stmts))
                    if uses_children:
                        with_children |= set(n for n in names if n)
        for k in sorted(with_children & set(kinds)):
            f, c = kinds[k]
            ctx.ob('R3.3', '_yr_atoms_extract_from_re:%s:traversed' % k, k in cases, f.loc(c),
                   'the atom extractor descends into %s' % k if k in cases else
                   '%s has children (per _yr_re_emit) but the atom extractor has no case for it: '
                   'literals below it are never indexed and forward/backward code is not marked' % k)


def r3_4(ctx):
    """every walk over a fiber's repeat-counter stack covers exactly the live entries"""
    prog = ctx.prog
    push_pre = push_post = 0
    init = None
    loops = []
    for f in prog.fns():
        if f.file != 'libyara/re.c' and not ctx.fixture:
            continue
        for n in f.all_nodes():
            if n['k'] == 'sub':
                b = cu.strip_casts(f, f.kid(n, 0))
                i = cu.strip_casts(f, f.kid(n, 1))
                if b is not None and b['k'] == 'member' and b['fld'] == 'stack' and i is not None and i['k'] == 'un':
                    t = cu.strip_casts(f, f.kid(i, 0))
                    if t is not None and t['k'] == 'member' and t['fld'] == 'sp':
                        if i['op'] == '++':
                            push_pre += 1
                        elif i['op'] == 'post++':
                            push_post += 1
            if n['k'] == 'bin' and n['op'] == '=':
                l = cu.strip_casts(f, f.kid(n, 0))
                if l is not None and l['k'] == 'member' and l['fld'] == 'sp' and l.get('rec') == 'RE_FIBER':
                    v = cu.const_of(cu.strip_casts(f, f.kid(n, 1)))
                    if v is not None:
                        init = v
            if n['k'] == 'for':
                c = cu.strip_casts(f, f.kid(n, 1))
                if c is not None and c['k'] == 'bin' and c['op'] in ('<', '<=') :
                    r = cu.strip_casts(f, f.kid(c, 1))
                    plus1 = False
                    if r is not None and r['k'] == 'bin' and r['op'] == '+' and \
                            cu.const_of(cu.strip_casts(f, f.kid(r, 1))) == 1:
                        r = cu.strip_casts(f, f.kid(r, 0))
                        plus1 = True
                    if r is not None and r['k'] == 'member' and r['fld'] == 'sp':
                        ivar = canon(f, f.kid(c, 0))
                        uses = [x for x in f.walk(n) if x['k'] == 'sub' and canon(f, f.kid(x, 1)) == ivar and
                                canon(f, f.kid(x, 0)).endswith('->stack')]
                        if uses:
                            eff = {'k': 'bin', 'op': '<=' if (plus1 and c['op'] == '<') else c['op'], 'i': c['i'],
                                   'l': c.get('l')}
                            loops.append((f, n, c if not plus1 else dict(c, op=eff['op'])))
    ctx.require((push_pre + push_post > 0 and init is not None) or ctx.fixture,
                'fiber stack discipline (initial sp, push form) not recognised')
    # sp = -1 and stack[++sp]: sp is the index of the top entry -> inclusive bound
    inclusive = push_pre > 0 and init == -1
    exclusive = push_post > 0 and init == 0
    ctx.ob('R3.4', 'stack:discipline', inclusive != exclusive, 'libyara/re.c',
           'sp starts at %s and pushes are stack[%s]: sp is %s' % (
               init, '++sp' if push_pre else 'sp++',
               'the index of the top entry' if inclusive else 'the number of entries')
           if inclusive != exclusive else
           'mixed stack discipline: initial sp %s, %d pre-increment and %d post-increment pushes' % (
               init, push_pre, push_post))
    want = '<=' if inclusive else '<'
    for k, (f, n, c) in enumerate(loops):
        ctx.ob('R3.4', '%s:stack-walk%d:covers-live-entries' % (f.name, k), c['op'] == want, f.loc(c),
               'walks entries 0..sp with `%s`' % c['op'] if c['op'] == want else
               '%s walks the counter stack with `i %s sp` although sp is %s: the %s' % (
                   f.name, c['op'], 'the index of the top entry' if inclusive else 'the entry count',
                   'top entry (the innermost repeat counter) is left out' if inclusive else
                   'walk reads one entry past the top'))
    ctx.count('fiber_stack_walks', len(loops))


def r3_5(ctx):
    """atom bytes and the regexp nodes they came from stay aligned: after an atom is
    trimmed by `shift` positions, the parallel array of RE_NODE pointers (whose
    forward/backward code is where verification starts) is read at `+ shift`"""
    prog = ctx.prog
    n_sites = 0
    for f in prog.fns():
        if f.file != 'libyara/atoms.c' and not ctx.fixture:
            continue
        trims = []
        for n in f.all_nodes():
            if n['k'] == 'bin' and n['op'] == '=':
                r = cu.strip_casts(f, f.kid(n, 1))
                l = cu.strip_casts(f, f.kid(n, 0))
                if r is not None and r['k'] == 'call' and r.get('callee') == '_yr_atoms_trim' and \
                        l is not None and l['k'] == 'ref':
                    trims.append((n, l['name']))
        k = 0
        for t, S in trims:
            blk = None
            for a in f.ancestors(t):
                if a['k'] == 'compound':
                    blk = a
                    break
            if blk is None:
                continue
            # a block copy of the whole parallel array starts at element 0
            for x in f.walk(blk):
                if x.get('l', 0) < t.get('l', 0) or x['k'] != 'call' or x.get('callee') not in ('memcpy', 'memmove'):
                    continue
                a_ = f.call_args(x)
                if len(a_) < 2:
                    continue
                sarr = cu.strip_casts(f, a_[1])
                if sarr is not None and sarr['k'] == 'un' and sarr['op'] == '&':
                    sarr = cu.strip_casts(f, f.kid(sarr, 0))
                # only the array the trimmed atom was made from needs the shift: the one that
                # is read at `+ shift` elsewhere in the function (an array that received a
                # shifted copy is already aligned)
                import re as _re2
                needs = set()
                for y in f.all_nodes():
                    if y['k'] == 'sub' and (y.get('t') or '').replace(' ', '') == 'RE_NODE*' and \
                            S in _re2.findall(r'[A-Za-z_]\w*', canon(f, f.kid(y, 1))):
                        needs.add(canon(f, f.kid(y, 0)))
                if sarr is not None and sarr['k'] == 'ref' and sarr['name'] in needs and \
                        (sarr.get('t') or '').replace(' ', '').startswith('RE_NODE*['):
                    n_sites += 1
                    ctx.ob('R3.5', '%s:trim%d:%s[0..]:shifted' % (f.name, k, sarr['name']), False, f.loc(x),
                           '%s is copied as a whole (from element 0) after the atom was trimmed by `%s` '
                           'positions: the atom is paired with the code of a node %s positions to its left and '
                           'every hit is verified out of alignment' % (sarr['name'], S, S))
            for x in f.walk(blk):
                if x['i'] <= t['i'] or x['k'] != 'sub' or x.get('t', '').replace(' ', '') != 'RE_NODE*':
                    continue
                src = canon(f, f.kid(x, 0))
                # how the element is consumed
                par = f.parent(x)
                addr = False
                while par is not None and (par['k'] == 'cast' or (par['k'] == 'un' and par['op'] == '&')):
                    addr = addr or par['k'] == 'un'
                    par = f.parent(par)
                use = None
                if par is not None and par['k'] == 'bin' and par['op'] == '=' and \
                        (cu.strip_casts(f, f.kid(par, 1)) is x or f.is_ancestor(f.kid(par, 1), x)):
                    dst = cu.strip_casts(f, f.kid(par, 0))
                    if dst is not None and dst['k'] == 'sub' and canon(f, f.kid(dst, 0)) != src:
                        use = 'copied into %s' % canon(f, f.kid(dst, 0))
                elif par is not None and par['k'] == 'call' and par.get('callee') == 'memcpy' and addr:
                    a = f.call_args(par)
                    if len(a) > 1 and f.is_ancestor(a[1], x):
                        use = 'copied by memcpy'
                elif par is not None and par['k'] == 'member' and par['fld'] in ('forward_code_ref', 'backward_code_ref'):
                    use = 'code reference taken'
                if use is None:
                    continue
                n_sites += 1
                idx = canon(f, f.kid(x, 1))
                import re as _re
                ok = S in _re.findall(r'[A-Za-z_]\w*', idx)
                ctx.ob('R3.5', '%s:trim%d:%s[%s]:shifted' % (f.name, k, src, idx), ok, f.loc(x),
                       '%s[%s] %s: indexed relative to the trim shift' % (src, idx, use) if ok else
                       '%s[%s] is %s after the atom was trimmed by `%s` positions, but the index ignores '
                       '`%s`: the atom is paired with the code of a node %s positions to its left and every '
                       'hit is verified out of alignment' % (src, idx, use, S, S, S))
            k += 1
    ctx.count('trimmed_atom_node_reads', n_sites)


FIXTURES = {
    'R3.1': {'src': 'C03/bytecode.c', 'run': r3_1, 'expect': 'yr_re_exec:RE_OPCODE_MASKED_LITERAL:advance',
             'expect_ok': 'yr_re_exec:RE_OPCODE_LITERAL:advance'},
    'R3.2': {'src': 'C03/bytecode.c', 'run': r3_2, 'expect': 'RE_OPCODE_JUMP:has-executor-case',
             'expect_ok': 'RE_OPCODE_LITERAL:has-executor-case'},
    'R3.3': {'src': 'C03/bytecode.c', 'run': r3_3, 'expect': '_yr_re_emit:RE_NODE_STAR:has-case',
             'expect_ok': '_yr_re_emit:RE_NODE_LITERAL:has-case'},
}


# callees that take a string operand of the VM as a C string by design:
# (callee) -> reason
VM_CSTRING_OK = {
    'yr_object_dict_get_item': 'dictionary keys are NUL-terminated names (documented); the lookup '
                               'compares with strcmp',
}


def r3_6(ctx):
    """the operand of `matches` (and every other string operand of the condition VM) is
    handed on as bytes + length: in yr_execute_code a SIZED_STRING's c_string is never
    passed to a function without the same string's length in the same call (a callee that
    measures it with strlen stops at the first NUL byte, so the regexp runs against a
    prefix of the operand)"""
    f = ctx.prog.fn('yr_execute_code', 'libyara/exec.c')
    if f is None:
        ctx.require(ctx.fixture, 'yr_execute_code not found')
        return
    n = 0
    occ = {}
    for c in f.calls():
        args = f.call_args(c)
        for a in args:
            for m in f.walk(a):
                if m['k'] == 'member' and m['fld'] == 'c_string' and m.get('rec') in ('SIZED_STRING', '_SIZED_STRING'):
                    base = canon(f, f.kid(m, 0))
                    has_len = any(x['k'] == 'member' and x['fld'] == 'length' and canon(f, f.kid(x, 0)) == base
                                  for a2 in args for x in f.walk(a2))
                    cal = c.get('callee') or 'indirect'
                    n += 1
                    occ[cal] = occ.get(cal, 0) + 1
                    key = 'yr_execute_code:%s%s:string-with-length' % (cal, '#%d' % occ[cal] if occ[cal] > 1 else '')
                    if not has_len and cal in VM_CSTRING_OK:
                        ctx.ob('R3.6', key, True, f.loc(c), 'exception: ' + VM_CSTRING_OK[cal])
                    else:
                        ctx.ob('R3.6', key, has_len, f.loc(c),
                               'the operand\'s bytes are passed with its length' if has_len else
                               '%s receives %s->c_string without %s->length: the string operand is '
                               'cut at its first NUL byte' % (cal, base, base))
    ctx.count('vm_string_operand_calls', n)


def r3_7(ctx):
    """the two halves of a masked literal's 16-bit operand mean the same to the emitter
    and to every reader: the emitter packs `mask << 8 | value`; a reader that tests
    `(input & A) == B` for such an instruction must take A from the high half (`args >> 8`,
    or the byte at +2 of the little-endian operand) and B from the low half (`args & 0xFF`,
    or the byte at +1)"""
    prog = ctx.prog
    emit = prog.fn('_yr_re_emit', 'libyara/re.c')
    ctx.require(emit is not None or ctx.fixture, '_yr_re_emit not found')
    hi_field = None
    if emit is not None:
        for n in emit.all_nodes():
            if n['k'] == 'bin' and n['op'] == '<<' and cu.const_of(cu.strip_casts(emit, emit.kid(n, 1))) == 8:
                l = cu.strip_casts(emit, emit.kid(n, 0))
                if l is not None and l['k'] == 'member' and l['fld'] in ('mask', 'value'):
                    hi_field = l['fld']
    ctx.require(hi_field is not None or ctx.fixture, 'the packing of the masked-literal operand was not found')
    hi_field = hi_field or 'mask'
    want_mask, want_value = ('hi', 'lo') if hi_field == 'mask' else ('lo', 'hi')
    M_OPS = set(prog.macro_value(x) for x in ('RE_OPCODE_MASKED_LITERAL', 'RE_OPCODE_MASKED_NOT_LITERAL'))
    n_sites = 0
    done_helpers = set()
    for rname in READERS:
        f = prog.fn(rname, 'libyara/re.c')
        if f is None:
            continue
        groups = []
        for ops, nodes, labels in reader_cases(ctx, f):
            if any(o in ('RE_OPCODE_MASKED_LITERAL', 'RE_OPCODE_MASKED_NOT_LITERAL') for o in ops):
                groups.append(nodes)

        def half(fn, e, scope, depth=0):
            e = cu.strip_casts(fn, e)
            if e is None or depth > 3:
                return None
            if e['k'] == 'un' and e['op'] == '*':
                x = cu.strip_casts(fn, fn.kid(e, 0))
                if x is not None and x['k'] == 'bin' and x['op'] == '+':
                    k = cu.const_of(cu.strip_casts(fn, fn.kid(x, 1)))
                    return {1: 'lo', 2: 'hi'}.get(k)
            if e['k'] == 'sub':
                return {1: 'lo', 2: 'hi'}.get(cu.const_of(cu.strip_casts(fn, fn.kid(e, 1))))
            if e['k'] == 'bin' and e['op'] == '>>' and cu.const_of(cu.strip_casts(fn, fn.kid(e, 1))) == 8:
                return 'hi'
            if e['k'] == 'bin' and e['op'] == '&' and 255 in (
                    cu.const_of(cu.strip_casts(fn, fn.kid(e, 0))), cu.const_of(cu.strip_casts(fn, fn.kid(e, 1)))):
                return 'lo'
            if e['k'] == 'ref':
                # the definition of that local in the same handler (assignment or
                # declaration with initialiser)
                best = None
                for x in scope:
                    if x.get('l', 0) > e.get('l', 0) or x['i'] == e['i']:
                        continue        # (node ids do not follow source order: compare lines)
                    if x['k'] == 'bin' and x['op'] == '=':
                        l = cu.strip_casts(fn, fn.kid(x, 0))
                        if l is not None and l['k'] == 'ref' and l['name'] == e['name']:
                            best = fn.kid(x, 1)
                    elif x['k'] == 'decl' and x.get('name') == e['name'] and x.get('c'):
                        best = fn.kid(x, 0)
                if best is not None:
                    return half(fn, best, scope, depth + 1)
            return None

        def check(fn, cmpn, scope, where_kind):
            nonlocal n_sites
            a, b = cu.strip_casts(fn, fn.kid(cmpn, 0)), cu.strip_casts(fn, fn.kid(cmpn, 1))
            for x, y in ((a, b), (b, a)):
                if x is not None and x['k'] == 'bin' and x['op'] == '&' and y is not None:
                    m = cu.strip_casts(fn, fn.kid(x, 1))
                    hm, hv = half(fn, m, scope), half(fn, y, scope)
                    if hm is None and hv is None:
                        continue
                    n_sites += 1
                    ok = hm == want_mask and hv == want_value
                    ctx.ob('R3.7', '%s:%s#%d:operand-halves' % (fn.name, where_kind, n_sites), ok, fn.loc(cmpn),
                           'mask from the %s half, value from the %s half, as the emitter packs them' % (hm, hv)
                           if ok else
                           'the masked-literal test takes its mask from the %s half and its value from the '
                           '%s half of the operand, the emitter packs the %s in the high half: the test '
                           'compares against the wrong byte' % (hm, hv, hi_field))
                    return
        helpers = {}
        for nodes in groups:
            for x in nodes:
                if x['k'] == 'bin' and x['op'] in ('==', '!='):
                    check(f, x, nodes, 'case')
                if x['k'] == 'call' and x.get('callee'):
                    h = f.tu.functions.get(x['callee'])
                    if h is not None and getattr(h, 'static', False) and h.name not in done_helpers:
                        helpers[h.name] = h
        # a static helper called from a masked-literal handler that performs the test
        for h in helpers.values():
            done_helpers.add(h.name)
            hn = list(h.all_nodes())
            for x in hn:
                if x['k'] == 'bin' and x['op'] in ('==', '!='):
                    check(h, x, hn, 'helper')
        # tests guarded by `<opcode> == RE_OPCODE_MASKED_*` outside the handler
        for x in f.all_nodes():
            if x['k'] == 'bin' and x['op'] == '&&':
                l = f.kid(x, 0)
                guard = any(y['k'] == 'bin' and y['op'] == '==' and
                            (cu.const_of(cu.strip_casts(f, f.kid(y, 1))) in M_OPS) and
                            (cu.strip_casts(f, f.kid(y, 1)).get('mn') or '').startswith('RE_OPCODE_MASKED')
                            for y in f.walk(l))
                if guard:
                    for y in f.walk(f.kid(x, 1)):
                        if y['k'] == 'bin' and y['op'] in ('==', '!='):
                            check(f, y, list(f.all_nodes()), 'guard')
    ctx.count('masked_literal_tests', n_sites)


def r3_8(ctx):
    """case-insensitive matching folds through the library's tables: in the regexp
    executors, code that runs under a test of RE_FLAGS_NO_CASE compares through
    yr_lowercase[] / yr_altercase[] (on both sides of an equality), or hands the flag to the
    class matcher, which does.  A bit trick such as `| 0x20` is a case fold for letters only:
    it equates '-' with CR, '@' with '`', NUL with space."""
    prog = ctx.prog
    NOCASE = prog.macro_value('RE_FLAGS_NO_CASE')
    ctx.require(NOCASE is not None or ctx.fixture, 'RE_FLAGS_NO_CASE not evaluable')
    n = 0
    for f in prog.fns():
        if f.file != 'libyara/re.c' and not ctx.fixture:
            continue

        def tests_nocase(c):
            return any(x['k'] == 'bin' and x['op'] == '&' and
                       cu.const_of(cu.strip_casts(f, f.kid(x, 1))) == NOCASE and
                       (cu.strip_casts(f, f.kid(x, 1)).get('mn') == 'RE_FLAGS_NO_CASE')
                       for x in f.walk(c))
        for node in f.all_nodes():
            if node['k'] != 'if' or not tests_nocase(f.kid(node, 0)):
                continue
            n += 1
            then = f.kid(node, 1)
            tables = [x for x in f.walk(then) if x['k'] == 'sub' and
                      cu.strip_casts(f, f.kid(x, 0)) is not None and
                      cu.strip_casts(f, f.kid(x, 0)).get('name') in ('yr_lowercase', 'yr_altercase')]
            cmps = [x for x in f.walk(then) if x['k'] == 'bin' and x['op'] in ('==', '!=')]
            ok = bool(tables)
            for c in cmps:
                sides = [cu.strip_casts(f, y) for y in f.kids(c)]
                folded = [y is not None and y['k'] == 'sub' and
                          cu.strip_casts(f, f.kid(y, 0)) is not None and
                          cu.strip_casts(f, f.kid(y, 0)).get('name') in ('yr_lowercase', 'yr_altercase')
                          for y in sides]
                if any(folded) and not all(folded):
                    ok = False
            ctx.ob('R3.8', '%s:nocase#%d:folds-through-table' % (f.name, n), ok, f.loc(node),
                   'the case-insensitive branch compares through the folding table on both sides' if ok else
                   'the branch taken for RE_FLAGS_NO_CASE does not compare through yr_lowercase[] / '
                   'yr_altercase[] on both sides: bytes that are not letters are treated as equal to '
                   'unrelated bytes')
    ctx.count('nocase_branches', n)


def r3_9(ctx):
    """the code reference _yr_re_emit hands back for a node (and records as the node's
    forward code) is the node's first instruction: on every path through the case of a
    node kind, the first emitting call - an emit helper or the recursive call - receives the
    address of the reference that is returned, and no later one does.  An enclosing `+` or
    `*` jumps back to that reference; if it designates the second instruction, every
    iteration after the first starts inside the node."""
    prog = ctx.prog
    f = prog.fn('_yr_re_emit', 'libyara/re.c')
    if f is None:
        ctx.require(ctx.fixture, '_yr_re_emit not found')
        return
    # the returned reference: `*code_ref = R`
    R = None
    outp = [p_['name'] for p_ in f.params if 'YR_ARENA_REF' in p_.get('type', '') and '*' in p_.get('type', '')]
    for n in f.all_nodes():
        if n['k'] == 'bin' and n['op'] == '=':
            l = cu.strip_casts(f, f.kid(n, 0))
            r = cu.strip_casts(f, f.kid(n, 1))
            if l is not None and l['k'] == 'un' and l['op'] == '*' and r is not None and r['k'] == 'ref':
                b = cu.strip_casts(f, f.kid(l, 0))
                if b is not None and b['k'] == 'ref' and b['name'] in outp:
                    R = r['name']
    ctx.require(R is not None or ctx.fixture, '_yr_re_emit: the reference handed back is not identified')
    if R is None:
        return
    # emitters and the position of their instruction-reference parameter
    emitters = {}
    for g in f.tu.fn_list:
        if g.name.startswith('_yr_emit_') or g.name == f.name:
            idx = [i for i, p_ in enumerate(g.params)
                   if 'YR_ARENA_REF' in p_.get('type', '') and '*' in p_.get('type', '')]
            if idx:
                emitters[g.name] = idx[0]
    ct = paths.CondTracker(f)

    def truth(e, facts, depth=0):
        e = cu.strip_casts(f, e)
        if e is None or depth > 6:
            return None
        if e['k'] == 'ref':
            for x in facts:
                if isinstance(x, tuple) and len(x) == 3 and x[1] == e['name']:
                    if x[0] == 'ne' and x[2] == 0:
                        return True
                    if x[0] == 'eq' and x[2] == 0:
                        return False
                    if x[0] == 'eq' and x[2] != 0:
                        return True
            return None
        if e['k'] == 'un' and e['op'] == '!':
            t = truth(f.kid(e, 0), facts, depth + 1)
            return None if t is None else not t
        if e['k'] == 'bin' and e['op'] in ('||', '&&'):
            a, b = truth(f.kid(e, 0), facts, depth + 1), truth(f.kid(e, 1), facts, depth + 1)
            if e['op'] == '||':
                if a is True or b is True:
                    return True
                return False if a is False and b is False else None
            if a is False or b is False:
                return False
            return True if a is True and b is True else None
        return None

    def which(arg, facts, depth=0):
        a = cu.strip_casts(f, arg)
        if a is None or depth > 4:
            return 'unknown'
        if cu.const_of(a) == 0:
            return 'NULL'
        if a['k'] == 'un' and a['op'] == '&':
            v = cu.strip_casts(f, f.kid(a, 0))
            return 'R' if v is not None and v['k'] == 'ref' and v['name'] == R else 'other'
        if a['k'] == 'cond':
            t = truth(f.kid(a, 0), facts)
            x, y = which(f.kid(a, 1), facts, depth + 1), which(f.kid(a, 2), facts, depth + 1)
            if t is True:
                return x
            if t is False:
                return y
            return x if x == y else 'unknown'
        if a['k'] == 'ref' and a['name'] in outp:
            return 'other'          # the caller's own reference, not the local one
        return 'unknown'
    bad = {}
    seen_cases = set()

    def case_of(n):
        for a in f.ancestors(n):
            if a['k'] == 'case' and a.get('mn', '').startswith('RE_NODE_'):
                return a['mn']
        # statements of a group are siblings of the label, not its descendants
        par = f.parent(n)
        node = n
        while par is not None and par['k'] != 'switch':
            node, par = par, f.parent(par)
        return None

    groups = []
    for sw in cu.find_switches(f):
        c = cu.switch_cond(f, sw)
        if c is None or not canon(f, c).endswith('->type'):
            continue
        for labels, stmts in cu.switch_groups(f, sw):
            names = [l.get('mn') for l in labels if l['k'] == 'case' and l.get('mn', '').startswith('RE_NODE_')]
            ids = set(x['i'] for st in stmts for x in f.walk(st))
            if names:
                groups.append((names, ids))

    def group_of(n):
        for names, ids in groups:
            if n['i'] in ids:
                return '/'.join(names)
        return None

    def step(n, facts):
        facts = ct.on_step(n, facts)
        if n['k'] == 'call' and n.get('callee') in emitters:
            g = group_of(n)
            if g is None:
                return facts
            seen_cases.add(g)
            args = f.call_args(n)
            w = which(args[emitters[n['callee']]], facts) if emitters[n['callee']] < len(args) else 'unknown'
            first = 'emitted' not in facts
            if first and w != 'R':
                bad.setdefault(g, (n, 'the first instruction of the node is emitted here with %s instead of &%s' % (
                    {'NULL': 'no reference', 'other': 'another reference', 'unknown': 'a reference that is not known to be &' + R}[w], R)))
            if not first and w == 'R':
                bad.setdefault(g, (n, '&%s is handed to a later emission: the reference is overwritten with the '
                                      'address of an instruction that is not the node\'s first' % R))
            return frozenset(facts) | {'emitted'}
        if n['k'] == 'ret':
            return None
        return facts

    def edge(b, term, cond, idx, succ, facts):
        return ct.on_edge(term, cond, idx, facts)
    try:
        paths.explore(f, set(), step, edge, max_states=60000)
    except paths.Budget:
        ctx.require(False, 'R3.9: state budget exceeded in _yr_re_emit')
    for g in sorted(seen_cases):
        ok = g not in bad
        ctx.ob('R3.9', '_yr_re_emit:%s:code-reference-is-first-instruction' % g, ok,
               f.loc(bad[g][0]) if not ok else '%s:%s' % (f.file, f.line),
               'on every path the first emission receives &%s and no later one does' % R if ok else
               '%s: an enclosing repetition that jumps back to this node re-enters it past its '
               'first instruction' % bad[g][1])


def r3_10(ctx):
    """a part of a regular expression is taken out of the AST and replaced by a byte-count
    gap between two chained strings only if counting bytes is what the VM would have done:
    the opcodes emitted for `.` and `.{n,m}` consult RE_FLAGS_DOT_ALL at run time (a
    newline kills the fiber without it), the gap check of chained strings does not look at
    the bytes at all, so the splitter may remove such a node only under a test of that
    flag.  Hex strings always carry the flag; a regular expression carries it with /s."""
    prog = ctx.prog
    vm = prog.fn('yr_re_exec', 'libyara/re.c')
    em = prog.fn('_yr_re_emit', 'libyara/re.c')
    if vm is None or em is None:
        ctx.require(ctx.fixture, 'yr_re_exec / _yr_re_emit not found')
        return
    dot_all = prog.macro_value('RE_FLAGS_DOT_ALL')
    ctx.require(dot_all is not None, 'RE_FLAGS_DOT_ALL not evaluable')
    sensitive = set()
    for sw in cu.find_switches(vm):
        for labels, stmts in cu.switch_groups(vm, sw):
            names = [l.get('mn') for l in labels if l['k'] == 'case' and l.get('mn', '').startswith('RE_OPCODE_')]
            if names and any(x['k'] == 'bin' and x['op'] == '&' and
                             cu.const_of(cu.strip_casts(vm, vm.kid(x, 1))) == dot_all
                             for st in stmts for x in vm.walk(st)):
                sensitive |= set(names)
    ctx.require(sensitive or ctx.fixture, 'no opcode handler of yr_re_exec consults RE_FLAGS_DOT_ALL')
    kinds = set()
    for sw in cu.find_switches(em):
        c = cu.switch_cond(em, sw)
        if c is None or not canon(em, c).endswith('->type'):
            continue
        for labels, stmts in cu.switch_groups(em, sw):
            names = [l.get('mn') for l in labels if l['k'] == 'case' and l.get('mn', '').startswith('RE_NODE_')]
            for st in stmts:
                for x in em.walk(st):
                    if x['k'] == 'call' and (x.get('callee') or '').startswith('_yr_emit_'):
                        a = em.call_args(x)
                        if len(a) > 1 and any(o in sensitive for o in _opcodes_of(em, a[1])):
                            kinds |= set(names)
    ctx.require(kinds or ctx.fixture, 'no node kind emits a DOT_ALL-sensitive opcode')
    n = 0

    def tests_kind(g):
        return sorted(set(y['mn'] for x in g.all_nodes() if x['k'] == 'bin' and x['op'] in ('==', '!=') and
                          any(z['k'] == 'member' and z['fld'] == 'type' for z in g.walk(x))
                          for y in g.walk(x) if (y.get('mn') or '') in kinds))
    for f in prog.fns():
        if f.file != 'libyara/re.c' and not ctx.fixture:
            continue
        if f is em or f is vm or 'destroy' in f.name:
            continue
        # a node held in a local is destroyed here: it is being taken out of the AST
        cuts = []
        for c in f.calls():
            if c.get('callee') != 'yr_re_node_destroy':
                continue
            a0 = cu.strip_casts(f, f.call_args(c)[0]) if f.call_args(c) else None
            if a0 is not None and a0['k'] == 'ref' and a0.get('dk') == 'local':
                cuts.append(c)
        if not cuts:
            continue
        tk = tests_kind(f)
        for c in f.calls():
            h = f.tu.functions.get(c.get('callee') or '')
            if h is not None and h is not f and getattr(h, 'static', False):
                tk = sorted(set(tk) | set(tests_kind(h)))
        if not tk:
            continue
        at = {}

        def step(x, facts):
            return facts

        def edge(b_, term, cond, idx, succ, facts):
            pol = paths.branch_polarity(f, term, idx)
            if pol is None or cond is None:
                return facts
            bt = paths.bit_test_outcome(f, cond, pol)
            if bt is not None and bt[1] == dot_all and bt[2]:
                return frozenset(facts) | {'dotall'}
            return facts

        def observe(x, facts):
            for c in cuts:
                if x is c:
                    at[c['i']] = 'dotall' in facts
        paths.must_flow(f, set(), step, edge, observe)
        for k_, c in enumerate(sorted(cuts, key=lambda x: (x.get('l', 0), x['i']))):
            n += 1
            ok = at.get(c['i'], False)
            ctx.ob('R3.10', '%s:removes-%s#%d:only-under-DOT_ALL' % (f.name, '/'.join(tk), k_), ok, f.loc(c),
                   'the node is replaced by a gap only when `.` matches every byte' if ok else
                   'a `.{n,m}` node is cut out of the expression and replaced by a byte-count gap on a '
                   'path on which RE_FLAGS_DOT_ALL was not found set: the VM would stop at a newline, the '
                   'gap does not (/abc.{0,300}?def/ matches across a line break although '
                   '/abc.{0,30}?def/ does not)')
    return n


def run(ctx):
    r3_1(ctx)
    ctx.floor('R3.1', 60)
    r3_2(ctx)
    ctx.floor('R3.2', 25)
    r3_3(ctx)
    ctx.floor('R3.3', 22)
    r3_4(ctx)
    ctx.floor('R3.4', 3)
    r3_5(ctx)
    ctx.floor('R3.5', 3)
    r3_6(ctx)
    ctx.floor('R3.6', 2)
    r3_7(ctx)
    ctx.floor('R3.7', 1)
    r3_8(ctx)
    ctx.floor('R3.8', 1)
    r3_9(ctx)
    ctx.floor('R3.9', 10)
    r3_10(ctx)
    ctx.floor('R3.10', 1)

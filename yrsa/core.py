"""Check driver: obligations, known findings, evidence, exit codes.

exit 0  every obligation discharged (or listed in known_findings.json)
exit 1  an unlisted violation (a VIOLATION line is printed)
exit 2  analysis broken (anchor vanished, instance floor tripped, extractor
        failed): never a pass and never a violation
"""
import glob
import importlib
import json
import os
import subprocess
import sys
import time
import traceback

from . import extract
from .facts import Program

VERIF = extract.VERIF
KNOWN = os.path.join(VERIF, 'known_findings.json')
EVID = os.path.join(VERIF, 'evidence')


class Broken(Exception):
    pass


class Ctx(object):
    def __init__(self, prop, tier, prog, fixture=False):
        self.prop = prop
        self.tier = tier
        self.prog = prog
        self.fixture = fixture
        self.obls = []          # dicts
        self._index = {}
        self.notes = []
        self.counts = {}
        self.rules_run = []

    # an obligation = one rule instance, discharged (ok) or violated
    def ob(self, rule, key, ok, where, detail='', data=None):
        # one obligation per (rule, key); a repeated key keeps the worst verdict
        idx = self._index.get((rule, key))
        if idx is not None:
            o = self.obls[idx]
            if o['ok'] and not ok:
                o.update({'ok': False, 'where': where, 'detail': detail, 'data': data})
            return
        self._index[(rule, key)] = len(self.obls)
        self.obls.append({'rule': rule, 'key': key, 'ok': bool(ok),
                          'where': where, 'detail': detail, 'data': data})

    def note(self, msg):
        self.notes.append(msg)

    def count(self, name, n):
        self.counts[name] = n

    def require(self, cond, msg):
        """anchor / vacuity check: failing it means the analysis is broken"""
        if not cond:
            raise Broken(msg)

    def floor(self, rule, minimum):
        n = sum(1 for o in self.obls if o['rule'] == rule)
        if n < minimum:
            raise Broken('rule %s matched %d instances, below its vacuity '
                         'floor %d' % (rule, n, minimum))
        return n

    def fn(self, name, tu=None):
        f = self.prog.fn(name, tu)
        if f is None:
            raise Broken('anchor function %s not found%s' % (
                name, (' in ' + tu) if tu else ''))
        return f


def load_known():
    if not os.path.exists(KNOWN):
        return []
    return json.load(open(KNOWN)).get('findings', [])


def run_fixtures(prop, mod, tier):
    """Every rule has a tiny positive example that must be reported on every
    run; a rule that cannot see its own fixture is broken."""
    fx = getattr(mod, 'FIXTURES', None)
    if not fx:
        return []
    results = []
    fxdir = os.path.join(VERIF, 'fixtures')
    import tempfile
    import shutil
    tmp = tempfile.mkdtemp(prefix='yrsa-fx-')
    try:
        by_src = {}
        for rule, spec in fx.items():
            by_src.setdefault(spec['src'], []).append((rule, spec))
        for src, lst in by_src.items():
            d = os.path.join(tmp, src.replace('/', '_'))
            os.makedirs(d)
            srcs = [src] + list(lst[0][1].get('extra_src', []))
            for s in srcs:
                out = os.path.join(d, os.path.basename(s).replace('/', '__') + '.json')
                cmd = [extract.YRX, '-root', os.path.realpath(os.path.join(fxdir, os.path.dirname(s))), '-o', out, os.path.basename(s), '--',
                       '-I.', '-resource-dir', extract.RESOURCE_DIR, '-w']
                r = subprocess.run(cmd, cwd=os.path.join(fxdir, os.path.dirname(s)),
                                   stdout=subprocess.PIPE, stderr=subprocess.PIPE, text=True)
                if r.returncode != 0:
                    raise Broken('fixture %s does not parse: %s' % (s, r.stderr[-300:]))
            json.dump({'units': srcs, 'parser_drift': []},
                      open(os.path.join(d, 'DONE.json'), 'w'))
            for t in lst[0][1].get('texts', []):
                shutil.copy2(os.path.join(fxdir, t),
                             os.path.join(d, lst[0][1]['texts'][t].replace('/', '__')))
            prog = Program(d)
            for rule, spec in lst:
                ctx = Ctx(prop, tier, prog, fixture=True)
                try:
                    spec['run'](ctx)
                except Broken as e:
                    raise Broken('fixture for %s: %s' % (rule, e))
                bad = [o for o in ctx.obls if not o['ok'] and o['rule'] == rule]
                good = [o for o in ctx.obls if o['ok'] and o['rule'] == rule]
                want = spec.get('expect')
                if not bad or (want and not any(want in o['key'] for o in bad)):
                    raise Broken('rule %s did not report its fixture %s (%s); got %s'
                                 % (rule, src, want, [o['key'] for o in bad]))
                if spec.get('expect_ok') and not any(spec['expect_ok'] in o['key'] for o in good):
                    raise Broken('rule %s did not discharge the clean instance %s '
                                 'of fixture %s' % (rule, spec['expect_ok'], src))
                results.append({'rule': rule, 'fixture': src,
                                'reported': [o['key'] for o in bad][:3]})
    finally:
        shutil.rmtree(tmp, ignore_errors=True)
    return results


def write_evidence(prop, tier, seed, level, coverage, assumptions, wall, nviol):
    if os.environ.get('YRSA_NO_EVIDENCE'):
        return
    os.makedirs(EVID, exist_ok=True)
    ev = {
        'property_id': prop,
        'tier': tier,
        'seed': seed,
        'level': level,
        'coverage': coverage,
        'assumptions': assumptions,
        'wall_s': round(wall, 2),
        'violations': nviol,
    }
    tmp = os.path.join(EVID, prop + '.json.tmp')
    json.dump(ev, open(tmp, 'w'), indent=1, sort_keys=True)
    os.replace(tmp, os.path.join(EVID, prop + '.json'))


def main(argv=None):
    argv = sys.argv[1:] if argv is None else argv
    if not argv:
        print('usage: check <Cxx> [--tier quick|thorough] [--replay file]')
        return 2
    prop = argv[0]
    tier = os.environ.get('VERIF_TIER', 'quick')
    replay = None
    i = 1
    while i < len(argv):
        if argv[i] == '--tier':
            tier = argv[i + 1]
            i += 2
        elif argv[i] == '--replay':
            replay = argv[i + 1]
            i += 2
        else:
            i += 1
    if tier not in ('quick', 'thorough'):
        tier = 'quick'
    try:
        seed = int(os.environ.get('VERIF_SEED', '0'))
    except ValueError:
        seed = 0
    t0 = time.time()
    try:
        mod = importlib.import_module('yrsa.rules.' + prop)
    except ImportError as e:
        print('ANALYSIS-BROKEN property=%s no rule module: %s' % (prop, e))
        return 2
    try:
        fdir, info = extract.prepare()
        variant = 'both' if tier == 'thorough' else 'regen'
        prog = Program(fdir, 'regen')
        ctx = Ctx(prop, tier, prog)
        mod.run(ctx)
        if tier == 'thorough' and getattr(mod, 'USES_PARSERS', False):
            prog2 = Program(fdir, 'committed')
            ctx2 = Ctx(prop, tier, prog2)
            mod.run(ctx2)
            seen = set((o['rule'], o['key']) for o in ctx.obls)
            for o in ctx2.obls:
                if (o['rule'], o['key']) not in seen:
                    o = dict(o)
                    o['key'] += '@committed-parser'
                    ctx.obls.append(o)
                elif not o['ok']:
                    # violated in the committed variant only?
                    for p in ctx.obls:
                        if (p['rule'], p['key']) == (o['rule'], o['key']) and p['ok']:
                            o = dict(o)
                            o['key'] += '@committed-parser'
                            ctx.obls.append(o)
                            break
            ctx.notes.append('committed parser variant analysed as well: %d obligations'
                             % len(ctx2.obls))
        if tier == 'thorough':
            # other build configurations of the same tree (assert() compiled out;
            # profiling enabled): a clause must hold in every configuration a user can build
            for cfg in getattr(mod, 'THOROUGH_CONFIGS', ('ndebug', 'profiling')):
                fdir_c, info_c = extract.prepare(config=cfg)
                prog_c = Program(fdir_c, 'regen')
                ctx_c = Ctx(prop, tier, prog_c)
                mod.run(ctx_c)
                base = {(o['rule'], o['key']): o['ok'] for o in ctx.obls}
                added = 0
                for o in ctx_c.obls:
                    k = (o['rule'], o['key'])
                    if k not in base or (base[k] and not o['ok']):
                        o = dict(o)
                        o['key'] += '@' + cfg
                        ctx.obls.append(o)
                        added += 1
                ctx.notes.append('configuration %s analysed as well: %d obligations, %d not present or '
                                 'different in the configured build' % (cfg, len(ctx_c.obls), added))
        fixtures = run_fixtures(prop, mod, tier)
        extra = {}
        if tier == 'thorough' and hasattr(mod, 'thorough_extra'):
            extra = mod.thorough_extra(ctx) or {}
    except (Broken, extract.AnalysisBroken) as e:
        print('ANALYSIS-BROKEN property=%s %s' % (prop, e))
        return 2
    except Exception:
        traceback.print_exc()
        print('ANALYSIS-BROKEN property=%s internal error' % prop)
        return 2

    known = [k for k in load_known() if k['property'] == prop]
    known_open = {(k['rule'], k['key']): k for k in known if k.get('status') == 'known'}
    viol = []
    knownhits = []
    for o in ctx.obls:
        if o['ok']:
            continue
        k = known_open.get((o['rule'], o['key']))
        if k is not None:
            knownhits.append((o, k))
        else:
            viol.append(o)
    if replay:
        want = json.load(open(replay))
        viol = [o for o in viol if (o['rule'], o['key']) == (want['rule'], want['key'])]
        print('replay %s/%s: %s' % (want['rule'], want['key'],
                                    'still violated' if viol else 'not reproduced'))

    st = prog.stats()
    print('[%s] tier=%s tree=%s cache=%s units=%d functions=%d call_sites=%d'
          % (prop, tier, info['tree_hash'][:12], info.get('cache'), st['units'],
             st['functions'], st['call_sites']))
    if info.get('parser_drift'):
        print('[%s] DRIFT note: committed parser sources differ textually from '
              'a regeneration: %s' % (prop, ', '.join(info['parser_drift'])))
    per_rule = {}
    for o in ctx.obls:
        r = per_rule.setdefault(o['rule'], [0, 0])
        r[0] += 1
        r[1] += 1 if o['ok'] else 0
    for r in sorted(per_rule):
        print('[%s] rule %-28s instances=%-4d discharged=%d' % (
            prop, r, per_rule[r][0], per_rule[r][1]))
    if os.environ.get('YRSA_VERBOSE'):
        for o in ctx.obls:
            print('  %s %-8s %-50s %s | %s' % ('ok ' if o['ok'] else 'BAD', o['rule'], o['key'], o['where'], o['detail'][:150]))
    for n in ctx.notes:
        print('[%s] note: %s' % (prop, n))
    for fx in fixtures:
        print('[%s] fixture fired: %s <- %s' % (prop, fx['rule'], fx['fixture']))
    for o, k in knownhits:
        print('KNOWN-FINDING: property=%s %s [%s %s at %s]' % (
            prop, k.get('what_fails', o['detail']), o['rule'], o['key'], o['where']))
    rc = 0
    if viol:
        rc = 1
        rdir = os.path.join(EVID, 'replay')
        if os.environ.get('YRSA_NO_EVIDENCE'):
            import tempfile
            rdir = tempfile.mkdtemp(prefix='yrsa-replay-')
        os.makedirs(rdir, exist_ok=True)
        for n, o in enumerate(viol):
            path = os.path.join(rdir, '%s-%d.json' % (prop, n))
            json.dump({'property': prop, 'rule': o['rule'], 'key': o['key'],
                       'where': o['where'], 'detail': o['detail'],
                       'data': o['data']}, open(path, 'w'), indent=1)
            print('%s: %s: %s [%s]' % (o['where'], o['rule'], o['detail'], o['key']))
            print('VIOLATION property=%s replay=%s' % (prop, path))

    nob = len(ctx.obls)
    ndis = sum(1 for o in ctx.obls if o['ok'])
    samples = []
    seen_rules = set()
    for o in ctx.obls:
        if o['rule'] not in seen_rules or len(samples) < 12:
            if sum(1 for s in samples if s['rule'] == o['rule']) >= 3:
                continue
            seen_rules.add(o['rule'])
            samples.append({'rule': o['rule'], 'instance': o['key'],
                            'where': o['where'], 'discharged': o['ok'],
                            'detail': o['detail'][:200]})
    level = getattr(mod, 'LEVEL', 'other')
    cov = {
        'explanation': getattr(mod, 'EXPLANATION', ''),
        'obligations': nob,
        'discharged': ndis + len(knownhits) if level != 'proof' else ndis,
        'evaluations': nob,
        'distinct_nontrivial': len(set((o['rule'], o['key']) for o in ctx.obls)),
        'rule': 'one obligation per rule instance found in the current tree; '
                'distinct = distinct (rule, instance key); every instance is '
                'non-trivial in the sense that it is a concrete construct of '
                '/repo the rule had to decide',
        'samples': samples,
        'checker_cmd': './check %s --tier %s' % (prop, tier),
        'trusted_base': ['clang-14 front end + clang::CFG', 'tools/yrx.cc',
                         'yrsa/*.py', 'frozen tables in yrsa/rules/%s.py' % prop],
        'per_rule': {r: {'instances': v[0], 'discharged': v[1]} for r, v in per_rule.items()},
        'units_analysed': st['units'],
        'functions_analysed': st['functions'],
        'call_sites_analysed': st['call_sites'],
        'cfg_blocks': st['cfg_blocks'],
        'not_analysed': info.get('not_analysed', []),
        'fixtures_fired': fixtures,
        'known_findings_hit': [k['key'] for _, k in knownhits],
        'tree_hash': info['tree_hash'],
        'cache': info.get('cache'),
        'parser_drift': info.get('parser_drift', []),
        'notes': ctx.notes,
        'counts': ctx.counts,
        'exhaustive': True,
    }
    cov.update(extra)
    write_evidence(prop, tier, seed, level, cov,
                   getattr(mod, 'ASSUMPTIONS', []), time.time() - t0, len(viol))
    print('[%s] obligations=%d discharged=%d known=%d violations=%d wall=%.1fs' % (
        prop, nob, ndis, len(knownhits), len(viol), time.time() - t0))
    return rc

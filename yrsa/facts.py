"""Load and index the yrx fact files."""
import glob
import json
import os
import re
from concurrent.futures import ThreadPoolExecutor


def norm(path):
    return os.path.normpath(path)


class Fn(object):
    """One function: node table + CFG."""

    def __init__(self, tu, d):
        self.tu = tu
        self.d = d
        self.name = d['name']
        self.file = tu.files[d['file']]
        self.line = d['line']
        self.end_line = d.get('end_line', d['line'])
        self.static = d.get('static', False)
        self.ret = d.get('ret')
        self.fntype = d.get('fntype')
        self.params = d.get('params', [])
        self.locals = d.get('locals', [])
        self.mstacks = d.get('mstacks', [])
        nodes = d['nodes']
        n = max((x['i'] for x in nodes), default=-1) + 1
        self.nodes = [None] * n
        for x in nodes:
            self.nodes[x['i']] = x
            if x['k'] == 'offsetof' and 'path' in x:
                # the unnamed union of DECLARE_REFERENCE is not a component
                x['path'] = [c for c in x['path'] if c]
        self.blocks = {}
        for b in d.get('blocks', []):
            self.blocks[b['id']] = b
        self.entry = d.get('entry')
        self.exit = d.get('exit')
        self._preds = None
        self._node_block = None

    # -------------------------------------------------------------- nodes
    def node(self, i):
        return self.nodes[i] if i is not None and 0 <= i < len(self.nodes) else None

    def kids(self, n):
        return [self.nodes[c] for c in n.get('c', ()) if self.nodes[c] is not None]

    def kid(self, n, i):
        c = n.get('c', ())
        if i < len(c):
            return self.nodes[c[i]]
        return None

    def parent(self, n):
        p = n.get('p', -1)
        return self.nodes[p] if p is not None and p >= 0 else None

    def walk(self, n):
        """pre-order over the subtree of n"""
        st = [n]
        while st:
            x = st.pop()
            if x is None:
                continue
            yield x
            for c in reversed(x.get('c', ())):
                st.append(self.nodes[c])

    def all_nodes(self):
        return (x for x in self.nodes if x is not None)

    def macros(self, n):
        m = n.get('m')
        if m is None:
            return ()
        return self.mstacks[m]

    def in_macro(self, n, name):
        return name in self.macros(n)

    def nfile(self, n):
        f = n.get('f')
        if f is None:
            return self.file
        return self.tu.files[f]

    def loc(self, n):
        return '%s:%s' % (self.nfile(n), n.get('l', '?'))

    def ancestors(self, n):
        p = self.parent(n)
        while p is not None:
            yield p
            p = self.parent(p)

    def is_ancestor(self, a, n):
        for x in self.ancestors(n):
            if x is a:
                return True
        return False

    # ---------------------------------------------------------- rendering
    _sym = False

    def show_sym(self, n):
        """like show(), but constants are printed with the macro they were
        spelled with (position-independent keys for reports)"""
        self._sym = True
        try:
            return self.show(n)
        finally:
            self._sym = False

    def show(self, n, depth=0):
        """C-like rendering of an expression (for reports and for
        canonical comparison of clones)."""
        if n is None:
            return '?'
        if depth > 40:
            return '...'
        k = n['k']
        ks = self.kids(n)
        s = lambda x: self.show(x, depth + 1)
        if k == 'ref':
            return n['name']
        if k == 'int' or k == 'char':
            if self._sym and n.get('mn'):
                return n['mn']
            return str(n.get('v', n.get('vs', '?')))
        if k == 'float':
            return repr(n.get('fval'))
        if k == 'str':
            return '"%s"' % n.get('str', '')
        if k == 'member':
            return '%s%s%s' % (s(ks[0]) if ks else '?',
                               '->' if n.get('arrow') else '.', n['fld'])
        if k == 'call':
            if 'callee' in n:
                return '%s(%s)' % (n['callee'], ', '.join(s(x) for x in ks[1:]))
            return '(*%s)(%s)' % (s(ks[0]) if ks else '?',
                                  ', '.join(s(x) for x in ks[1:]))
        if k == 'bin':
            return '(%s %s %s)' % (s(ks[0]), n['op'], s(ks[1]))
        if k == 'un':
            op = n['op']
            if op.startswith('post'):
                return '%s%s' % (s(ks[0]), op[4:])
            return '%s%s' % (op, s(ks[0]))
        if k == 'cond':
            return '(%s ? %s : %s)' % tuple(s(x) for x in ks[:3]) if len(ks) >= 3 else 'cond?'
        if k == 'cast':
            return '(%s)%s' % (n.get('t'), s(ks[0]) if ks else '?')
        if k == 'sub':
            return '%s[%s]' % (s(ks[0]), s(ks[1]))
        if k == 'sizeof':
            return 'sizeof(%s)' % n.get('of')
        if k == 'offsetof':
            return 'offsetof(%s, %s)' % (n.get('ofrec'), '.'.join(n.get('path', [])))
        if k == 'decl':
            return '%s %s%s' % (n.get('t'), n['name'],
                                (' = ' + s(ks[0])) if ks else '')
        if k == 'ret':
            return 'return %s' % (s(ks[0]) if ks else '')
        if k == 'goto':
            return 'goto %s' % n['name']
        if k == 'init':
            return '{%s}' % ', '.join(s(x) for x in ks)
        if k == 'stmtexpr':
            return '({...})'
        return '<%s>' % k

    # ---------------------------------------------------------------- cfg
    def succs(self, b):
        return [x for x in self.blocks[b]['s'] if x is not None]

    def preds(self):
        if self._preds is None:
            p = {b: [] for b in self.blocks}
            for b, bd in self.blocks.items():
                for s in bd['s']:
                    if s is not None:
                        p[s].append(b)
            self._preds = p
        return self._preds

    def node_block(self):
        """node id -> (block id, index in block) for CFG elements"""
        if self._node_block is None:
            m = {}
            for b, bd in self.blocks.items():
                for i, e in enumerate(bd['e']):
                    if e not in m:
                        m[e] = (b, i)
            self._node_block = m
        return self._node_block

    def block_of(self, n):
        """block containing node n (or its nearest enclosing CFG element)"""
        nb = self.node_block()
        x = n
        while x is not None:
            if x['i'] in nb:
                return nb[x['i']]
            x = self.parent(x)
        return None

    def reachable_blocks(self, start=None):
        start = self.entry if start is None else start
        seen = set([start])
        st = [start]
        while st:
            b = st.pop()
            for s in self.succs(b):
                if s not in seen:
                    seen.add(s)
                    st.append(s)
        return seen

    def calls(self):
        for n in self.all_nodes():
            if n['k'] == 'call':
                yield n

    def call_args(self, n):
        return self.kids(n)[1:]

    def __repr__(self):
        return '<Fn %s %s:%s>' % (self.name, self.file, self.line)


class TU(object):
    def __init__(self, path):
        d = json.load(open(path))
        self.path = path
        self.name = norm(d['tu'])
        self.errors = d.get('errors', 0)
        self.files = [norm(f) for f in d['files']]
        self.records = {r['name']: r for r in d['records']}
        self.enums = d.get('enums', {})
        self.globals = d.get('globals', [])
        self.macros = {}
        for m in d.get('macros', []):
            self.macros[m[0]] = (m[1], self.files[m[2]], m[3])
        self.fmacros = {m[0]: (self.files[m[1]], m[2]) for m in d.get('fmacros', [])}
        self.functions = {}
        self.fn_list = []
        for f in d['functions']:
            fn = Fn(self, f)
            self.fn_list.append(fn)
            # first definition wins (there is one per TU in C)
            self.functions.setdefault(fn.name, fn)


_INT_TOK = re.compile(r'^(0[xX][0-9a-fA-F]+|\d+)[uUlL]*$')


class Program(object):
    def __init__(self, fdir, variant='regen'):
        """variant: 'regen' (parsers as `make` builds them from .y/.l),
        'committed' (the tracked grammar.c etc.), or 'both'."""
        self.fdir = fdir
        paths = sorted(glob.glob(os.path.join(fdir, '*.c.json')))
        with ThreadPoolExecutor(max_workers=8) as ex:
            tus = list(ex.map(TU, paths))
        self.all_tus = {t.name: t for t in tus}
        self.tus = {}
        for name, t in self.all_tus.items():
            is_committed = name.endswith('.committed.c')
            if variant == 'regen' and is_committed:
                continue
            if variant == 'committed':
                if is_committed:
                    continue_name = name.replace('.committed.c', '.c')
                    self.tus[continue_name] = t
                    continue
                if (name[:-2] + '.committed.c') in self.all_tus:
                    continue
            self.tus[name] = t
        self.info = json.load(open(os.path.join(fdir, 'DONE.json')))
        # indexes
        self.fn_by_name = {}
        for t in self.tus.values():
            for fn in t.fn_list:
                self.fn_by_name.setdefault(fn.name, []).append(fn)
        self.records = {}
        for t in self.tus.values():
            for k, r in t.records.items():
                if k not in self.records or len(r['fields']) > len(self.records[k]['fields']):
                    self.records[k] = r
        # `typedef struct _X {..} X;` : make the record reachable as X too
        for k in list(self.records):
            if k.startswith('_') and k[1:] not in self.records:
                self.records[k[1:]] = self.records[k]
        self.enums = {}
        self.macros = {}
        for t in self.tus.values():
            self.enums.update(t.enums)
            for k, v in t.macros.items():
                self.macros.setdefault(k, v)
        self._mcache = {}

    def text(self, relpath):
        p = os.path.join(self.fdir, relpath.replace('/', '__'))
        if os.path.exists(p):
            return open(p, errors='replace').read()
        return None

    def tu(self, name):
        return self.tus.get(name)

    def fn(self, name, tu=None):
        """resolve a function by name; prefer the definition in `tu`"""
        if tu is not None:
            t = self.tus.get(tu) if isinstance(tu, str) else tu
            if t is not None and name in t.functions:
                return t.functions[name]
        l = self.fn_by_name.get(name)
        if not l:
            return None
        # prefer non-static
        for f in l:
            if not f.static:
                return f
        return l[0]

    def fns(self):
        for t in self.tus.values():
            for f in t.fn_list:
                yield f

    def macro_value(self, name, depth=0):
        """integer value of an object-like macro (restricted evaluator)."""
        if name in self._mcache:
            return self._mcache[name]
        if name in self.enums:
            return self.enums[name]
        if name not in self.macros or depth > 20:
            return None
        text = self.macros[name][0]
        toks = re.findall(r'0[xX][0-9a-fA-F]+[uUlL]*|\d+[uUlL]*|[A-Za-z_]\w*|<<|>>|[-+*/%()|&^~]', text)
        if ''.join(toks) != re.sub(r'\s+', '', text):
            self._mcache[name] = None
            return None
        out = []
        for t in toks:
            if _INT_TOK.match(t):
                t2 = re.sub(r'[uUlL]+$', '', t)
                out.append(str(int(t2, 0)))
            elif re.match(r'^[A-Za-z_]', t):
                v = self.macro_value(t, depth + 1)
                if v is None:
                    self._mcache[name] = None
                    return None
                out.append('(%d)' % v)
            else:
                out.append('//' if t == '/' else t)
        try:
            v = eval(''.join(out), {'__builtins__': {}}, {})
        except Exception:
            v = None
        if not isinstance(v, int):
            v = None
        self._mcache[name] = v
        return v

    def macros_with_prefix(self, prefix):
        out = {}
        for k in self.macros:
            if k.startswith(prefix):
                v = self.macro_value(k)
                if v is not None:
                    out[k] = v
        return out

    def stats(self):
        nf = 0
        nc = 0
        nb = 0
        for f in self.fns():
            nf += 1
            nb += len(f.blocks)
            for n in f.all_nodes():
                if n['k'] == 'call':
                    nc += 1
        return {'units': len(self.tus), 'functions': nf, 'call_sites': nc,
                'cfg_blocks': nb}

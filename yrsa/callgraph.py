"""Call graph with field-/type-resolved function pointers, and the bottom-up
summaries the rules share (return-code sets, allocator wrappers, parameter
escape)."""
from . import cfgutil as cu


class CallGraph(object):
    def __init__(self, prog):
        self.prog = prog
        self.by_field = {}      # (record, field) -> set(fn names)
        self.by_type = {}       # canonical fn type -> set(fn names) (address taken)
        self.addr_taken = set()
        self._callees = {}
        self.by_param = {}      # (function name, arg index) -> set(fn names)
        self._build_pointer_tables()

    def _build_pointer_tables(self):
        prog = self.prog
        for tu in prog.tus.values():
            for g in tu.globals:
                for rec, fld, fn in g.get('init_fields', []):
                    self.by_field.setdefault((rec, fld), set()).add(fn)
                for fn in g.get('init_fns', []):
                    self.addr_taken.add(fn)
                    # tables of bare function pointers: key by the global's name
                    self.by_field.setdefault(('<global>', g['name']), set()).add(fn)
        for f in prog.fns():
            for n in f.all_nodes():
                if n['k'] != 'ref' or n.get('dk') != 'func':
                    continue
                p = f.parent(n)
                if p is not None and p['k'] == 'call' and f.kid(p, 0) is n:
                    continue
                self.addr_taken.add(n['name'])
                # function passed as an argument: callee's parameter may be it
                pa = p
                child = n
                while pa is not None and pa['k'] == 'cast':
                    child = pa
                    pa = f.parent(pa)
                if pa is not None and pa['k'] == 'call' and 'callee' in pa:
                    ks = pa.get('c', [])
                    if child['i'] in ks:
                        self.by_param.setdefault(
                            (pa['callee'], ks.index(child['i']) - 1), set()).add(n['name'])
                # x->fld = fn  /  x.fld = fn
                q = p
                while q is not None and q['k'] in ('cast', 'un'):
                    q = f.parent(q)
                if q is not None and q['k'] == 'bin' and q['op'] == '=':
                    lhs = f.kid(q, 0)
                    if lhs is not None and lhs['k'] == 'member':
                        self.by_field.setdefault((lhs.get('rec'), lhs['fld']), set()).add(n['name'])
        for name in self.addr_taken:
            for fn in prog.fn_by_name.get(name, []):
                if fn.fntype:
                    self.by_type.setdefault(fn.fntype, set()).add(name)

    def targets(self, f, call):
        """names of the functions a call node may reach"""
        if 'callee' in call:
            return [call['callee']]
        callee = cu.strip_casts(f, f.kid(call, 0))
        out = set()
        if callee is not None:
            if callee['k'] == 'un' and callee['op'] == '*':
                callee = cu.strip_casts(f, f.kid(callee, 0))
            if callee is not None and callee['k'] == 'member':
                out |= self.by_field.get((callee.get('rec'), callee['fld']), set())
            elif callee is not None and callee['k'] == 'ref' and callee.get('dk') == 'param':
                names = [p['name'] for p in f.params]
                if callee['name'] in names:
                    out |= self.by_param.get((f.name, names.index(callee['name'])), set())
            elif callee is not None and callee['k'] == 'sub':
                root, path = cu.member_path(f, callee)
                if root is not None and root['k'] == 'ref':
                    out |= self.by_field.get(('<global>', root['name']), set())
        if not out:
            t = call.get('fntype')
            if t:
                out |= self.by_type.get(t, set())
        return sorted(out)

    def callees(self, f):
        key = (f.tu.name, f.name)
        if key in self._callees:
            return self._callees[key]
        out = []
        for c in f.calls():
            for t in self.targets(f, c):
                g = self.prog.fn(t, f.tu)
                out.append((c, t, g))
        self._callees[key] = out
        return out

    def reachable(self, roots):
        """functions (Fn objects) reachable from the named roots"""
        seen = {}
        work = []
        for r in roots:
            f = self.prog.fn(r) if isinstance(r, str) else r
            if f is not None and (f.tu.name, f.name) not in seen:
                seen[(f.tu.name, f.name)] = f
                work.append(f)
        while work:
            f = work.pop()
            for c, t, g in self.callees(f):
                if g is not None and (g.tu.name, g.name) not in seen:
                    seen[(g.tu.name, g.name)] = g
                    work.append(g)
        return list(seen.values())


TOP = '<any>'


def _expr_values(prog, cg, f, e, ret_of, varvals, depth=0):
    """set of symbolic return values of expression e: ERROR_* names, 'const:<n>',
    TOP"""
    e = cu.strip_casts(f, e)
    if e is None or depth > 6:
        return set([TOP])
    k = e['k']
    c = cu.const_of(e)
    if c is not None and k != 'call':
        mn = e.get('mn')
        if mn and mn.startswith('ERROR_'):
            return set([mn])
        return set(['const:%d' % c])
    if k == 'call':
        out = set()
        ts = cg.targets(f, e)
        if not ts:
            return set([TOP])
        for t in ts:
            g = prog.fn(t, f.tu)
            if g is None:
                out.add('ext:' + t)
            else:
                out |= ret_of.get((g.tu.name, g.name), set())
        return out
    if k == 'ref' and e.get('dk') in ('local', 'param'):
        if e.get('dk') == 'param':
            return set([TOP])
        return varvals(e['name'], depth + 1)
    if k == 'cond':
        return _expr_values(prog, cg, f, f.kid(e, 1), ret_of, varvals, depth + 1) | \
            _expr_values(prog, cg, f, f.kid(e, 2), ret_of, varvals, depth + 1)
    if k == 'bin' and e['op'] == '=':
        return _expr_values(prog, cg, f, f.kid(e, 1), ret_of, varvals, depth + 1)
    return set([TOP])


def return_codes(prog, cg):
    """K-ret: {(tu, fn): set of values} for functions returning int"""
    fns = [f for f in prog.fns() if f.ret in ('int', 'YR_API int')]
    ret_of = {(f.tu.name, f.name): set() for f in fns}
    # per function: assignments to each local (flow-insensitive)
    assigns = {}
    for f in fns:
        a = {}
        for n in f.all_nodes():
            if n['k'] == 'decl' and n.get('c'):
                a.setdefault(n['name'], []).append(f.kid(n, 0))
            elif n['k'] == 'bin' and n['op'] == '=':
                l = f.kid(n, 0)
                if l is not None and l['k'] == 'ref':
                    a.setdefault(l['name'], []).append(f.kid(n, 1))
            elif n['k'] == 'bin' and n['op'] in ('|=', '+=', '-=', '&='):
                l = f.kid(n, 0)
                if l is not None and l['k'] == 'ref':
                    a.setdefault(l['name'], []).append(None)
            elif n['k'] == 'un' and n['op'] == '&':
                l = f.kid(n, 0)
                if l is not None and l['k'] == 'ref':
                    a.setdefault(l['name'], []).append(None)
        assigns[(f.tu.name, f.name)] = a
    changed = True
    rounds = 0
    while changed and rounds < 30:
        changed = False
        rounds += 1
        for f in fns:
            key = (f.tu.name, f.name)
            a = assigns[key]
            memo = {}

            def varvals(name, depth, a=a, f=f, memo=memo):
                if name in memo:
                    return memo[name]
                memo[name] = set()
                out = set()
                for rhs in a.get(name, []):
                    if rhs is None:
                        out.add(TOP)
                    else:
                        out |= _expr_values(prog, cg, f, rhs, ret_of, varvals, depth)
                if not a.get(name):
                    out.add(TOP)
                memo[name] = out
                return out
            vals = set()
            for n in f.all_nodes():
                if n['k'] == 'ret' and n.get('c'):
                    vals |= _expr_values(prog, cg, f, f.kid(n, 0), ret_of, varvals)
            if not vals <= ret_of[key]:
                ret_of[key] |= vals
                changed = True
    return ret_of


def is_error_returning(vals):
    return any(v.startswith('ERROR_') for v in vals)


def fallible(vals):
    """can return something other than success, and speaks the ERROR_ domain"""
    if not is_error_returning(vals):
        return False
    return any(v != 'ERROR_SUCCESS' and (v.startswith('ERROR_') or v == TOP or v.startswith('ext:'))
               for v in vals)


BASE_ALLOC = ('yr_malloc', 'yr_calloc', 'yr_realloc', 'yr_strdup', 'yr_strndup')


def alloc_like(prog, cg, pools=False):
    """functions returning a pointer that is NULL when an allocation fails.
    pools=False: only functions that return the allocation itself (the caller
    owns it); pools=True: also pool/page allocators that return NULL exactly
    under `if (<allocation> == NULL)`."""
    out = set(BASE_ALLOC)
    changed = True
    while changed:
        changed = False
        for f in prog.fns():
            if f.name in out or not f.ret or '*' not in f.ret:
                continue
            # variables assigned from alloc-like calls
            avars = set()
            for n in f.all_nodes():
                src = None
                name = None
                if n['k'] == 'decl' and n.get('c'):
                    name, src = n['name'], f.kid(n, 0)
                elif n['k'] == 'bin' and n['op'] == '=':
                    l = f.kid(n, 0)
                    if l is not None and l['k'] == 'ref':
                        name, src = l['name'], f.kid(n, 1)
                src = cu.strip_casts(f, src) if src is not None else None
                if src is not None and src['k'] == 'call' and src.get('callee') in out:
                    avars.add(name)
            calls_alloc = any(c.get('callee') in out for c in f.calls())
            # an allocation that the function also links into a structure it was given
            # (`*list_head = item; return item;`) is kept there: the caller gets a
            # borrowed pointer, not ownership
            kept = set()
            for n in f.all_nodes():
                if n['k'] == 'bin' and n['op'] == '=':
                    r_ = cu.strip_casts(f, f.kid(n, 1))
                    l_ = cu.strip_casts(f, f.kid(n, 0))
                    if r_ is not None and r_['k'] == 'ref' and r_['name'] in avars and l_ is not None and \
                            (l_['k'] == 'un' and l_['op'] == '*' or l_['k'] == 'member' and l_.get('arrow')
                             or l_['k'] == 'sub'):
                        root = l_
                        while root is not None and root['k'] in ('un', 'member', 'sub', 'cast'):
                            root = f.kid(root, 0)
                        if root is not None and root['k'] == 'ref' and root.get('dk') in ('param', 'global'):
                            kept.add(r_['name'])
            for n in f.all_nodes():
                if n['k'] != 'ret' or not n.get('c'):
                    continue
                e = cu.strip_casts(f, f.kid(n, 0))
                if e is None:
                    continue
                # returns the allocation itself, or NULL on a path of a
                # function that allocates (pool/page allocators)
                hit = (e['k'] == 'call' and e.get('callee') in out) or \
                    (e['k'] == 'ref' and e['name'] in avars and (pools or e['name'] not in kept))
                if not hit and pools and calls_alloc and avars and cu.const_of(e) == 0:
                    for a in f.ancestors(n):
                        if a['k'] == 'if':
                            c = f.kid(a, 0)
                            if c is not None and any(x['k'] == 'ref' and x['name'] in avars
                                                     for x in f.walk(c)):
                                hit = True
                            break
                if hit:
                    out.add(f.name)
                    changed = True
                    break
    return out

"""What is claimed in MANIFEST.json (kept next to the rules so they move together)."""

CLAIMS = {
    'C04': {
        'text': 'Decides that every opcode the compiler can emit (all emission sites, with computed opcodes enumerated from the operator map and the lexer\'s value domain) has a VM handler; that, per opcode, the operand bytes every emitter writes equal what the handler consumes on every non-jump path; that every handler reading a popped operand\'s value tests it for undefined first and pushes undefined on the undefined path (frozen exception table with reasons); and that the grammar\'s precedence/associativity block equals the table in docs/writingrules.rst. Necessary structural clauses of C04; the arithmetic and loop semantics are not decided.',
        'design_ref': 'DESIGN.md section 4, C04 (R4.1-R4.5)',
        'note': 'Trusts clang-14 AST/CFG, tools/yrx.cc, the exemption table UNDEF_EXEMPT in yrsa/rules/C04.py and the read_* bounds-checked-reader idiom. One build configuration.',
        'technique': 'static exhaustiveness + writer/reader width agreement + undefined-operand typestate over clang AST/CFG facts; doc-vs-grammar table comparison',
    },
    'C16': {
        'text': 'Decides the error discipline of every library function, on every path including those no injection scenario reaches: (R16.1) no result of a function that can report ERROR_INSUFFICIENT_MEMORY (bottom-up return-code summaries, 253 functions, ~1740 call sites) is dropped or overwritten before being tested; (R16.2) every result of an allocating function (~280 sites incl. pool allocators) is NULL-tested on every path before it is dereferenced or left in a non-local slot; (R16.3) no p = yr_realloc(p); (R16.4) every local that owns an allocation (~190) is released or handed over on every path to a return, with success-only transfer through fallible storing callees; (R16.5) the library allocates only through mem.c (flex/vendored exceptions listed). Decides these necessary structural clauses, not the outcome of a particular injection; module field setters are exempt by the module contract (counted).',
        'design_ref': 'DESIGN.md section 4, C16 (R16.1-R16.5)',
        'note': 'Trusts clang-14 AST/CFG, tools/yrx.cc, the summaries in yrsa/callgraph.py, the enumerated idioms (FAIL_ON_ERROR family, out-parameter NULL test, result-accumulating chains, correlated flag variables) and the exception table OWNERSHIP_EXCEPTIONS. Intraprocedural typestate with callee summaries; aliasing through stores is treated as escape (fewer reports, never more).',
        'technique': 'static error-discipline analysis: return-code summaries + unchecked->checked and owned->released typestate over clang CFG, path-sensitive on correlated conditions',
    },
    'C08': {
        'text': 'Decides the structure the save/load round trip rests on, at every site: each yr_arena_allocate_struct registers exactly the DECLARE_REFERENCE pointer fields of its record and no arena record holds other raw pointers; no pointer is emitted into bytecode as an integer; every store into a relocatable slot stores NULL, an arena pointer or a copy of another slot (provenance, one level through parameters); yr_arena_save_stream restores the swapped pointers on every return; each saved buffer is zeroed-struct-only, fully-overwritten-write-only or structs plus memset terminators, and raw-written records have no padding; yr_rules_from_arena initialises every YR_RULES field. Necessary clauses of C08; equality of results after reload is not decided.',
        'design_ref': 'DESIGN.md section 4, C08 (R8.1-R8.6)',
        'note': 'Trusts clang record layouts, tools/yrx.cc, the table EXTRA_SLOTS (YR_EXTERNAL_VARIABLE.value.s) and TERMINATOR_FUNCS; records reached through a pointer are taken to be arena-resident.',
        'technique': 'static registry-completeness + value-provenance + save/restore typestate + per-buffer allocation-kind table over clang AST/CFG facts',
    },
    'C19': {
        'text': 'Decides, for every local (and every parameter fed by callers) that holds a raw pointer into an arena buffer - acquired from yr_arena_get_ptr/yr_arena_ref_to_ptr/_yr_compiler_get_rule_by_idx or loaded from a relocatable field - that it is never read after a call whose bottom-up may-allocate summary contains that buffer, on any path; every allocation is assumed to relocate, so the property\'s quantifier over initial capacities disappears. Also that no long-lived compile-time structure has a pointer field designating an arena record. Necessary clause of C19 (no stale reference); byte-identical images are not decided.',
        'design_ref': 'DESIGN.md section 4, C19 (R19.1-R19.3)',
        'note': 'Trusts the FIELD_BUFFER table (cross-checked by C08/R8.3), the may-allocate summaries (buffer ids propagated through parameters), and that compile-time arena calls act on the compiler\'s arena. Copies of a tracked pointer into struct fields are not followed.',
        'technique': 'static buffer-aware valid->stale pointer typestate with interprocedural may-allocate summaries over clang CFG facts',
    },
    'C09': {
        'text': 'Decides which state scan code can write and under which lock: the may-write set of every library function reachable from the public scan API (direct calls plus field/type-resolved function pointers, ~470 functions incl. all module code) contains no field of a shared rule-data record type and no mem* write over one; arena mutators are reached only on an arena created in the same function; every mutable library global is either never written in that set, written only under its recorded lock (must-hold lockset on every access to the signal-handler globals, use count decremented on every path after each increment), or listed in a frozen exception table with its reason; externals are snapshotted by value. If nothing shared is written, concurrent scans cannot interfere; schedules themselves are not explored.',
        'design_ref': 'DESIGN.md section 4, C09 (R9.1-R9.4)',
        'note': 'Type-based aliasing (a store through T* may touch any T; writes through integer/void* round trips other than the repo\'s macros are not seen). User callbacks, iterators and OpenSSL are outside the claim; process scanning (proc/linux.c page_size) is a listed exception.',
        'technique': 'static effect (may-write) analysis over a pointer-resolved call graph + must-hold lockset + inc/dec pairing on clang CFG facts',
    },
    'C10': {
        'text': 'Decides that every field of the scanner context a scan may write (effect analysis over everything reachable from yr_scanner_scan_mem_blocks) is re-initialised on the fresh-scan branch, assigned on every path before rule evaluation, or a listed setting/cache - clearing only at the end of a scan is rejected because a scan suspended with ERROR_BLOCK_NOT_READY and never resumed runs no end-of-scan code; that yr_execute_code passes yr_modules_unload_all (and its frees) on every return once the dispatch loop was entered; that yr_re_exec returns its fibers to the pool on every exit and recycled fibers are fully re-initialised; that destroy releases what create allocates. Necessary clauses of C10; equality of callback traces is not decided.',
        'design_ref': 'DESIGN.md section 4, C10 (R10.1-R10.4)',
        'note': 'Trusts the SETTINGS table in yrsa/rules/C10.py (each entry has its reason) and type-based effect analysis. A reset performed conditionally inside the fresh-scan branch counts as a reset.',
        'technique': 'static write-set vs reset-set comparison (effect analysis + must-assign paths) and must-pass-through rules over clang CFG facts',
    },
    'C11': {
        'text': 'Decides the shape of the callback protocol: every call through a callback pointer in the library carries a message that its enclosing function is permitted to emit (SCAN_FINISHED, IMPORT_MODULE, MODULE_IMPORTED have exactly one site); the reporting loop walks the rule table in definition order with one call per rule, and on every path to that call the rule was tested not private, RULE_MATCHING implies match bit set and namespace satisfied, RULE_NOT_MATCHING the opposite, each gated by its report flag; after CALLBACK_ABORT/ERROR from a rule message no further callback call is reachable and ERROR_SUCCESS/ERROR_CALLBACK_ERROR is returned; CALLBACK_ERROR from a module message fails yr_modules_load and stops OP_IMPORT; an already loaded module is silent; only OP_INIT_RULE/OP_MATCH_RULE and the cleaner write the two bookkeeping bitmasks. "Matching iff the condition holds" is not decided.',
        'design_ref': 'DESIGN.md section 4, C11 (R11.1-R11.4)',
        'note': 'Trusts the PERMITTED table and the recognition of the bitmask/private macros (an unrecognised loop makes the check exit 2).',
        'technique': 'static who-may-call table + path-sensitive fact tracking over the reporting loop and the return-value switch (clang CFG facts)',
    },
    'C20': {
        'text': 'Decides that in each of the 4 rules-level and 4 scanner-level define functions the value store (and any free/type change) is reachable only through the edge on which the stored type compared equal to that API\'s type, that the mismatch exit returns ERROR_INVALID_EXTERNAL_VARIABLE_TYPE and the not-found exit ERROR_INVALID_ARGUMENT, that the compiler-level helper allocates nothing before its duplicate check; that nothing reachable from yr_scanner_define_* writes a shared rule-data record (effect analysis); that yr_scanner_create snapshots every external by value; and that each front end sets the type constant and union member of its API type. Necessary clauses of C20; the three-level precedence as a history property is not decided.',
        'design_ref': 'DESIGN.md section 4, C20 (R20.1-R20.4)',
        'note': 'Trusts the three tables RULES_LEVEL/SCANNER_LEVEL/COMPILER_LEVEL (API function -> type constants -> union member) in yrsa/rules/C20.py and type-based effect analysis.',
        'technique': 'static must-pass (type check dominates store) path analysis + effect analysis + sibling table over clang CFG facts',
    },
    'C18': {
        'text': 'Decides the synchronisation structure of cli/yara.c: every access to the file queue holds queue_mutex (must-hold lockset with entry locksets inherited from callers), producer/consumer semaphore wait/post are paired on every non-timeout path, file_queue_finish posts one token per possible thread and main bounds the thread count by the same constant; every global written by code reachable from scanning_thread is read and written under a lock; every stdout print reachable from scanning_thread holds output_mutex; each thread gets a private scanner; an error printed while scanning a directory must reach the exit status (two known findings: it does not). Necessary structural clauses; equality of stdout across runs and yarac equivalence are not decided.',
        'design_ref': 'DESIGN.md section 4, C18 (R18.1-R18.5)',
        'note': 'Single-call fprintf(stderr) warnings are accepted without the mutex (POSIX stdio locking). Only cli/yara.c is analysed for locksets; library code reachable from the thread is covered by C09.',
        'technique': 'static must-hold lockset analysis with caller-derived entry locksets + structural pairing checks over clang CFG facts',
    },
    'C17': {
        'text': 'Decides, in the compiled-rules loader: every yr_stream_read result is compared with the requested count; every file-derived value (fields of the variables filled from the stream and of the reference copied out of a loaded buffer) is compared against a trusted bound on every path before it is used as an array index, an allocation size, a pointer offset, a read count or handed to the reference->pointer conversion, and a guard that subtracts from an unsigned quantity has its own lower-bound test; the relocation list must be delimited (known finding: it is not - the format has no count/terminator); nothing leaks when a file is rejected (C16\'s ownership typestate on the loader functions). Necessary clauses of C17; semantically edited but well-formed files are not decided.',
        'design_ref': 'DESIGN.md section 4, C17 (R17.1-R17.4)',
        'note': 'Only yr_arena_load_stream / yr_rules_load_stream / yr_rules_load / yr_rules_from_arena are analysed. A comparison counts as a bound check only if its other side is not itself file-derived.',
        'technique': 'static taint-to-sink path analysis (dominating bound comparisons) over clang CFG facts + ownership typestate',
    },
    'C13': {
        'text': 'Decides the scan funnel and the continuation bookkeeping: the block scanner and the rule evaluator are called only from yr_scanner_scan_mem_blocks, which every public scan entry point reaches through the resolved call graph; the wrappers pair scanner create/destroy, file map/unmap and process iterator open/close on every path; the fresh-scan initialisation sits in the last_error != ERROR_BLOCK_NOT_READY branch (first() there, next() in the continuation), the end-of-scan cleanup is conditional on result != ERROR_BLOCK_NOT_READY and nothing else clears matches; every function that walks the block iterator must read iterator->last_error (26 known findings: the evaluation-time walkers in exec.c and the modules do not; documented as the iterator\'s obligation in docs/capi.rst). Equality of results across entry points as values is not decided.',
        'design_ref': 'DESIGN.md section 4, C13 (R13.1-R13.3)',
        'note': 'Trusts the PAIRS and PUBLIC tables in yrsa/rules/C13.py and the pointer-resolved call graph.',
        'technique': 'static who-may-call/reachability over the call graph + acquire/release pairing paths + structural continuation-guard checks (clang facts)',
    },
    'C15': {
        'text': 'Decides, per engine limit, that a branch mentioning the limit raises its documented error (16 rows incl. the six iterator stack tests, lexer identifier/integer tests) and that every narrowing store of a regexp code offset is preceded by its INT16/INT32 range test; that every push on the VM value stack (170 sites in yr_execute_code, 29 in the iterators) is reached only with a proven free slot (margin dataflow: tested slots minus pushes on every path); that every byte stored through lex_buf_ptr++ in the rule lexer is covered by the preceding lex_check_space_ok; that writes into limit-sized arrays are dominated by a bounding comparison (three relational cases are frozen entries whose compile-time side conditions are checked: loop_index++ guarded, vars_count reset, split ids distinct, OP_*_M operand shapes); and that both timeout polls are evaluated on every path from the loop header to the back edge. "Returns within a bounded delay" is timing and is not decided.',
        'design_ref': 'DESIGN.md section 4, C15 (R15.1-R15.3; R15.4 is covered by C09/C11 who-may-write)',
        'note': 'Trusts LIMIT_TABLE, BOUNDED_ARRAYS, FROZEN_BOUNDS/FROZEN_INDEX in yrsa/rules/C15.py (each frozen entry states its bounding argument) and the monotone-counter assumption for `== LIMIT` tests.',
        'technique': 'static limit->error table check + margin dataflow on bounded writes + must-pass-through of timeout polls over clang CFG facts',
    },
    'C07': {
        'text': 'Decides necessary structural clauses of compile robustness: (R7.1) in every final action of the three bison grammars each right-hand-side value with a %destructor is consumed exactly once on every exit of the action (normal end, YYERROR, YYABORT) and never used after it was freed - bison does not destruct the right-hand side of the rule whose action raises the error; (R7.2) every YYERROR/YYABORT of the rule grammar is preceded on its path by yyerror() with compiler->last_error set, and the public yr_compiler_add_* return the error count; (R7.3) every generated parser runs under a dominating setjmp on the very buffer its lexer\'s fatal handler longjmps to, whose recovery branch returns a failure, releases what the normal path releases after the parse, and reads only locals settled before setjmp; (R7.4) compile-time folding applies the VM\'s trap guards (shared with C12); (R7.5) every YR_COMPILER field that receives an owning pointer reaches a releasing call in yr_compiler_destroy; (R7.6) every error code that can reach compiler->last_error has a message case; (R7.7) error-message buffers in locals are initialised before they are read, or filled by the callee for exactly the return codes under which they are read. Termination and memory safety of the flex/bison engines on arbitrary bytes are not decided.',
        'design_ref': 'DESIGN.md section 4, C07 (R7.1-R7.7)',
        'note': 'Trusts the bison semantics stated in yrsa/rules/C07.py ASSUMPTIONS, the .y reader yrsa/bison.py (actions are matched to generated code through #line), MEMBER_OF_TYPE (which union member owns memory per %type) and callee escape summaries from C16.',
        'technique': 'static ownership typestate over bison actions + must-pass-through (yyerror before YYERROR) + dominance/pairing on setjmp scaffolding + exhaustiveness over return-code summaries (clang CFG facts)',
    },
    'C14': {
        'text': 'Decides the structure the digest cache and the range walkers rely on, not digest or statistic values: (R14.1) for every cached hasher the cache namespace is the same literal in lookup and store and private to the function, the key is the pair of original arguments (never written) from which the cursors start, one algorithm\'s init/update/final are used with the standard digest length and fitting buffers, the cached string is the returned string and a hit returns it; (R14.2) for all 8 range walkers of hash.c/math.c, on every path the argument validation (offset < 0, length < 0, offset < base, no block) is rejected before the window, the window is entered only for offset in [base, base+size), its length is min(length, size - data_offset), both cursors advance by it, block bytes are read only at block_data + data_offset (+ i < data_len) through an unsigned byte pointer after a NULL test, and an unreadable block, a gap after the first block of the range and a range meeting no block all end in a return / flag test; (R14.3) string-argument forms hand (c_string, length) of the same sized string to the digest, index below length and convert each byte to uint8_t before use. Digest values, floating-point results and string.to_int parsing are not decided.',
        'design_ref': 'DESIGN.md section 4, C14 (R14.1-R14.3)',
        'note': 'Role inference is structural (block variable by type, cursor from `x - block->base`, window from the conditional expression); a walker rewritten beyond that shape is reported as analysis-broken through the instance floor, not as a violation.',
        'technique': 'static role inference + path-sensitive must-hold guard facts + reader/writer agreement on the digest cache over clang AST/CFG facts',
    },
    'C12': {
        'text': 'Decides, for every constant-folding grammar action, that the folder applies the same C operator and the same operand-value guards as the VM handler of the opcode the action emits; that no compiler-layer code reads a run-time object value; that externals are looked up in the scanner-owned table; and that shortcut flags are cleared on every path that uses a string otherwise. These are necessary structural clauses of C12, decided on all sites; verdict equality itself is not decided.',
        'design_ref': 'DESIGN.md section 4, C12 (R12.1-R12.6)',
        'note': 'Trusts clang-14 AST/CFG, tools/yrx.cc, the operand correspondence r1<->$1, r2<->$3, and the frozen tables in yrsa/rules/C12*.py. One build configuration (Linux x86-64 as configured).',
        'technique': 'static sibling-agreement + who-may-read layering + must-clear dataflow over clang AST/CFG facts',
    },
}

_WIP = 'check under construction at this commit (design in DESIGN.md section 4); not claimed until its rules and fixtures are committed'

NOT_APPLICABLE = {
    'C05': 'Interference between rules lives in run-time contents of the shared automaton/tables; no pairing, ownership or layering fact implies independence (DESIGN.md section 4, C05).',
}
for _p in ['C%02d' % i for i in range(1, 21)]:
    if _p not in CLAIMS and _p not in NOT_APPLICABLE:
        NOT_APPLICABLE[_p] = _WIP

"""What is claimed in MANIFEST.json (kept next to the rules so they move together)."""

CLAIMS = {
    'C12': {
        'text': 'Decides, for every constant-folding grammar action, that the folder applies the same C operator and the same operand-value guards as the VM handler of the opcode the action emits; that no compiler-layer code reads a run-time object value; that externals are looked up in the scanner-owned table; and that shortcut flags are cleared on every path that uses a string otherwise. These are necessary structural clauses of C12, decided on all sites; verdict equality itself is not decided.',
        'design_ref': 'DESIGN.md section 4, C12 (R12.1-R12.6)',
        'note': 'Trusts clang-14 AST/CFG, tools/yrx.cc, the operand correspondence r1<->$1, r2<->$3, and the frozen tables in yrsa/rules/C12*.py. One build configuration (Linux x86-64 as configured).',
        'technique': 'static sibling-agreement + who-may-read layering + must-clear dataflow over clang AST/CFG facts',
    },
}

_WIP = 'check under construction at this commit (design in DESIGN.md section 4); not claimed until its rules and fixtures are committed'

NOT_APPLICABLE = {
    'C05': 'Interference between rules lives in run-time contents of the shared automaton/tables; no pairing, ownership or layering fact implies independence (DESIGN.md section 4, C05).',
}
for _p in ['C%02d' % i for i in range(1, 21)]:
    if _p not in CLAIMS and _p not in NOT_APPLICABLE:
        NOT_APPLICABLE[_p] = _WIP

"""Roles of the locals of the condition VM (yr_execute_code), derived from what
they do rather than from how they are spelled:

  dispatch  the switch with the most case groups whose labels are OP_* constants
  opcode    the variable that switch dispatches on
  ip        the pointer whose dereference is assigned to `opcode`
  stop      the variable the dispatch loop tests (`while (!stop)`)
  regs      the scalar YR_VALUE locals (operand registers)
  mem       the YR_VALUE array local (loop variables)
  args      the other YR_VALUE array local (function-call arguments), if any
  stack     the local of type YR_VALUE_STACK

so that a rename of a local does not blind (or fire) a rule.
"""
from . import cfgutil as cu


class VMRoles(object):
    def __init__(self, prog, f):
        self.f = f
        best = None
        for sw in cu.find_switches(f):
            c = cu.strip_casts(f, cu.switch_cond(f, sw))
            if c is None:
                continue
            groups = cu.switch_groups(f, sw)
            n_op = 0
            for labels, stmts in groups:
                for l in labels:
                    mn = l.get('mn') or ''
                    if l['k'] == 'case' and mn.startswith('OP_') and l.get('v') == prog.macro_value(mn):
                        n_op += 1
            if n_op and (best is None or n_op > best[0]):
                best = (n_op, sw, groups, c)
        self.dispatch = best[1] if best else None
        self.groups = best[2] if best else None
        self.n_opcode_labels = best[0] if best else 0
        c = best[3] if best else None
        self.opcode = c['name'] if c is not None and c['k'] == 'ref' else None
        self.ip = None
        if self.opcode:
            for n in f.all_nodes():
                src = None
                if n['k'] == 'decl' and n.get('name') == self.opcode and n.get('c'):
                    src = f.kid(n, 0)
                elif n['k'] == 'bin' and n['op'] == '=':
                    l = cu.strip_casts(f, f.kid(n, 0))
                    if l is not None and l['k'] == 'ref' and l['name'] == self.opcode:
                        src = f.kid(n, 1)
                src = cu.strip_casts(f, src) if src is not None else None
                if src is not None and src['k'] == 'un' and src['op'] == '*':
                    x = cu.strip_casts(f, f.kid(src, 0))
                    if x is not None and x['k'] == 'ref':
                        self.ip = x['name']
        elif c is not None and c['k'] == 'un' and c['op'] == '*':
            x = cu.strip_casts(f, f.kid(c, 0))
            if x is not None and x['k'] == 'ref':
                self.ip = x['name']
        # the loop that contains the dispatch switch and what it tests
        self.loop = None
        self.stop = None
        if self.dispatch is not None:
            for a in f.ancestors(self.dispatch):
                if a['k'] in ('while', 'for', 'do'):
                    self.loop = a
                    cnd = f.kid(a, 0) if a['k'] == 'while' else None
                    if a['k'] == 'for':
                        parts = a.get('parts', [])
                        cnd = f.node(parts[1]) if len(parts) > 1 and parts[1] >= 0 else None
                    if a['k'] == 'do':
                        cnd = f.kids(a)[-1]
                    if cnd is not None:
                        for x in f.walk(cnd):
                            if x['k'] == 'ref' and x.get('dk') == 'local':
                                self.stop = x['name']
                                break
                    break
        self.regs = []
        self.arrays = []
        self.stack = None
        for l in f.locals:
            t = (l.get('type') or '')
            if t == 'YR_VALUE' and l['name'] not in self.regs:
                self.regs.append(l['name'])
            elif t.startswith('YR_VALUE[') and l['name'] not in self.arrays:
                self.arrays.append(l['name'])
            elif t == 'YR_VALUE_STACK':
                self.stack = l['name']
        # args is the array handed whole to a called function (the module function),
        # mem the other one (loop variables, addressed by operands of the code stream)
        self.mem = None
        self.args = None
        passed = set()
        for c in f.calls():
            if c.get('callee') in ('memset', 'memcpy'):
                continue
            for a in f.call_args(c):
                a = cu.strip_casts(f, a)
                if a is not None and a['k'] == 'ref' and a['name'] in self.arrays:
                    passed.add(a['name'])
        for a in self.arrays:
            if a in passed and self.args is None:
                self.args = a
            elif self.mem is None:
                self.mem = a

    def is_reg(self, name):
        return name in self.regs


def vm_roles(prog, f=None):
    f = f or prog.fn('yr_execute_code', 'libyara/exec.c')
    if f is None:
        return None
    r = getattr(f, '_vm_roles', None)
    if r is None:
        r = VMRoles(prog, f)
        f._vm_roles = r
    return r

"""Interprocedural constant propagation through small pure functions.

`returns_under(f, env)` enumerates the paths of f on which every branch whose
condition is decided by the known values is taken the decided way, and returns
the set of values f can return (None standing for "not a known constant").
Known values are given as {canonical expression text: int}, e.g.
{'op[0]': ord('+'), 'op[1]': 0, 'expression_type': 1}.  Integer locals are
followed through `v = e`, `v += e`, `v -= e`; a call of a function of the same
unit is evaluated the same way with the known values renamed to its parameters.
Nothing is executed: this is constant folding over the typed AST and the CFG.
"""
from . import cfgutil as cu
from . import paths


def _canon(f, e, res=None):
    from .rules.C14 import canon
    return canon(f, e, 0, res)


def ceval(f, e, env, depth=0):
    """value of e when the expressions in env are known; None if unknown"""
    e = cu.strip_casts(f, e)
    if e is None or depth > 12:
        return None
    c = cu.const_of(e)
    if c is not None:
        return c
    for res in (None, True):
        s = _canon(f, e, res)
        if s in env:
            return env[s]
    k = e['k']
    if k == 'ref':
        d = cu.stable_def_of(f, e)
        if d is not None:
            return ceval(f, d, env, depth + 1)
        return None
    if k == 'cond':
        c = ceval(f, f.kid(e, 0), env, depth + 1)
        if c is None:
            a, b = ceval(f, f.kid(e, 1), env, depth + 1), ceval(f, f.kid(e, 2), env, depth + 1)
            return a if a is not None and a == b else None
        return ceval(f, f.kid(e, 1 if c else 2), env, depth + 1)
    if k == 'un':
        v = ceval(f, f.kid(e, 0), env, depth + 1)
        if v is None:
            return None
        if e['op'] == '!':
            return 0 if v else 1
        if e['op'] == '-':
            return -v
        if e['op'] == '~':
            return ~v
        return None
    if k == 'bin':
        op = e['op']
        a = ceval(f, f.kid(e, 0), env, depth + 1)
        if op == '&&':
            if a == 0:
                return 0
            b = ceval(f, f.kid(e, 1), env, depth + 1)
            if b == 0:
                return 0
            return 1 if a is not None and b is not None else None
        if op == '||':
            if a not in (None, 0):
                return 1
            b = ceval(f, f.kid(e, 1), env, depth + 1)
            if b not in (None, 0):
                return 1
            return 0 if a == 0 and b == 0 else None
        b = ceval(f, f.kid(e, 1), env, depth + 1)
        if a is None or b is None:
            return None
        try:
            return {'+': lambda: a + b, '-': lambda: a - b, '*': lambda: a * b,
                    '==': lambda: int(a == b), '!=': lambda: int(a != b),
                    '<': lambda: int(a < b), '<=': lambda: int(a <= b),
                    '>': lambda: int(a > b), '>=': lambda: int(a >= b),
                    '&': lambda: a & b, '|': lambda: a | b, '^': lambda: a ^ b,
                    '<<': lambda: a << b, '>>': lambda: a >> b}[op]()
        except (KeyError, ValueError, OverflowError):
            return None
    if k == 'call':
        h = f.tu.functions.get(e.get('callee') or '')
        if h is None or h is f or depth > 4:
            return None
        env2 = {}
        hp = [p['name'] for p in h.params]
        for i, a in enumerate(f.call_args(e)):
            if i >= len(hp):
                break
            v = ceval(f, a, env, depth + 1)
            if v is not None:
                env2[hp[i]] = v
            s = _canon(f, a)
            for key, val in env.items():
                # a pointer handed through: what is known behind it stays known
                if key.startswith(s + '[') or key.startswith(s + '->'):
                    env2[hp[i] + key[len(s):]] = val
        try:
            vals = returns_under(h, env2, depth + 1)
        except paths.Budget:
            return None
        if len(vals) == 1:
            return list(vals)[0]
        return None
    return None


def returns_under(f, env, depth=0):
    """set of values f can return given env (None = some non-constant value)"""
    out = set()
    locs = set(l['name'] for l in f.locals)

    def cur_env(facts):
        e2 = dict(env)
        for x in facts:
            e2[x[0]] = x[1]
        return e2

    def setv(facts, name, val):
        keep = frozenset(x for x in facts if x[0] != name)
        return keep if val is None else keep | {(name, val)}

    def step(n, facts):
        if n['k'] == 'decl' and n.get('c') and cu.stable_def_of is not None:
            return setv(facts, n['name'], ceval(f, f.kid(n, 0), cur_env(facts), depth))
        if n['k'] == 'bin' and n['op'].endswith('=') and n['op'] not in ('==', '!=', '<=', '>='):
            l = cu.strip_casts(f, f.kid(n, 0))
            if l is not None and l['k'] == 'ref' and l['name'] in locs:
                e2 = cur_env(facts)
                r = ceval(f, f.kid(n, 1), e2, depth)
                if n['op'] == '=':
                    return setv(facts, l['name'], r)
                old = e2.get(l['name'])
                if old is None or r is None:
                    return setv(facts, l['name'], None)
                try:
                    v = {'+=': old + r, '-=': old - r, '|=': old | r, '&=': old & r,
                         '*=': old * r}.get(n['op'])
                except Exception:
                    v = None
                return setv(facts, l['name'], v)
        if n['k'] == 'un' and n['op'] in ('++', '--', 'post++', 'post--'):
            l = cu.strip_casts(f, f.kid(n, 0))
            if l is not None and l['k'] == 'ref' and l['name'] in locs:
                old = cur_env(facts).get(l['name'])
                return setv(facts, l['name'], None if old is None else old + (1 if '+' in n['op'] else -1))
        if n['k'] == 'ret':
            out.add(ceval(f, f.kid(n, 0), cur_env(facts), depth) if n.get('c') else None)
            return None
        return facts

    def case_values(sw):
        vals = []
        for x in f.walk(sw):
            if x['k'] == 'case':
                near = None
                for a in f.ancestors(x):
                    if a['k'] == 'switch':
                        near = a
                        break
                if near is sw:
                    vals.append(cu.const_of(cu.strip_casts(f, f.kid(x, 0))))
        return vals

    def edge(b, term, cond, idx, succ, facts):
        if term is not None and term['k'] == 'switch':
            v = ceval(f, cu.switch_cond(f, term), cur_env(facts), depth)
            if v is None:
                return facts
            cn = paths.switch_case_of(f, term, succ)
            if cn is not None and cn['k'] == 'case':
                return facts if cu.const_of(cu.strip_casts(f, f.kid(cn, 0))) == v else None
            # default label or the statement after the switch
            return None if v in case_values(term) else facts
        pol = paths.branch_polarity(f, term, idx)
        if pol is None or cond is None:
            return facts
        c = paths.effective_cond(f, cond)
        v = ceval(f, c, cur_env(facts), depth)
        if v is None:
            return facts
        return facts if bool(v) == pol else None
    paths.explore(f, set(), step, edge, max_states=20000)
    return out

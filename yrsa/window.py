"""Offsets inside a byte window: a small relational abstract interpreter.

The parsers of exefiles.c, elf.c (and the like) do not guard reads with a
bounds macro; they compare *sums of file-derived offsets and sizes* with the
length of the buffer, sometimes once in front of a loop that then walks a
table.  Deciding "every read through a pointer into the scanned bytes is
inside the window" for that style needs the relation between a pointer and the
length, not a typestate bit.  This module computes it:

  value   every integer or pointer expression is a linear form over *atoms*
          (const + sum coef * atom).  Atoms are values, not names: an entry
          value of a parameter ('p', name), the bytes loaded from an address
          inside the (immutable) window ('ld', address, size, signed), the
          iteration number of a loop ('k', head), a join ('phi', block, var),
          the result of an evaluation site ('op', node), ...  Because atoms
          are values, a fact never has to be killed when a variable changes.
  facts   rows  lin <= 0  learnt on branch edges from comparisons whose two
          sides are *faithful*: neither side can have wrapped in the C type it
          was computed in (decided from the ranges of the atoms and the facts,
          so `ULONG_MAX - a < b` guards are understood for what they are).
  loops   a variable that differs by a constant between loop head and back
          edge is  entry + c * k ; facts of the previous iteration are shifted
          (k := k - 1) before the join.
  proof   goal <= 0 follows from the facts when a non-negative combination of
          rows dominates it term by term (bounded search; the ranges of the
          atoms are implicit rows).

Interprocedural: a goal that speaks only about entry values of parameters
becomes a precondition, checked at every call site inside the analysed units;
return sites are summarised as (returned constant, facts) and released in the
caller on the edge that tests the result.
"""
from fractions import Fraction
from . import cfgutil as cu
from . import paths

import os
DEBUG = bool(os.environ.get('WDEBUG'))
LEN_MAX = 1 << 62           # assumption: no window is longer than 2^62 bytes
K_MAX = (1 << 31) - 1       # assumption: no loop runs 2^31 iterations


class Unsupported(Exception):
    pass


_repr_memo = {}


def arepr(a):
    r = _repr_memo.get(a)
    if r is None:
        r = repr(a)
        _repr_memo[a] = r
    return r


class Lin(object):
    __slots__ = ('c', 't', '_h')

    def __init__(self, c=0, t=()):
        self.c = c
        self.t = t
        self._h = hash((c, t))

    @staticmethod
    def make(c, d):
        items = [(a, k) for a, k in d.items() if k != 0]
        if len(items) > 1:
            items.sort(key=lambda x: arepr(x[0]))
        return Lin(c, tuple(items))

    @staticmethod
    def const(c):
        return Lin(c, ())

    @staticmethod
    def atom(a, k=1):
        return Lin(0, ((a, k),))

    def __eq__(self, o):
        return isinstance(o, Lin) and self._h == o._h and self.c == o.c and self.t == o.t

    def __ne__(self, o):
        return not self.__eq__(o)

    def __hash__(self):
        return self._h

    def __repr__(self):
        parts = []
        for a, k in self.t:
            parts.append(('%s*' % k if k != 1 else '') + show_atom(a))
        if self.c != 0 or not parts:
            parts.append(str(self.c))
        return ' + '.join(parts)

    def add(self, o, k=1):
        if not o.t:
            return Lin(self.c + k * o.c, self.t)
        d = dict(self.t)
        for a, c in o.t:
            d[a] = d.get(a, 0) + k * c
        return Lin.make(self.c + k * o.c, d)

    def addc(self, c):
        return Lin(self.c + c, self.t)

    def scale(self, k):
        if k == 0:
            return Lin(0, ())
        return Lin(self.c * k, tuple((a, c * k) for a, c in self.t))

    def is_const(self):
        return not self.t

    def coef(self, a):
        for x, k in self.t:
            if x == a:
                return k
        return 0

    def single_atom(self):
        if len(self.t) == 1 and self.t[0][1] == 1 and self.c == 0:
            return self.t[0][0]
        return None

    def all_atoms(self, out=None):
        if out is None:
            out = set()
        for a, _ in self.t:
            _atoms_in(a, out)
        return out

    def subst(self, fn):
        """fn(atom) -> Lin | None; applied bottom-up, also inside atoms"""
        c = self.c
        d = {}
        changed = False
        for a, k in self.t:
            a2 = _subst_atom(a, fn)
            r = fn(a2)
            if r is None:
                if a2 is not a:
                    changed = True
                d[a2] = d.get(a2, 0) + k
            else:
                changed = True
                c += k * r.c
                for b, kb in r.t:
                    d[b] = d.get(b, 0) + k * kb
        if not changed:
            return self
        return Lin.make(c, d)


def _atoms_in(a, out):
    if a in out:
        return
    out.add(a)
    for x in a:
        if isinstance(x, Lin):
            x.all_atoms(out)
        elif isinstance(x, tuple):
            for y in x:
                if isinstance(y, Lin):
                    y.all_atoms(out)


def _subst_atom(a, fn):
    new = None
    for i, x in enumerate(a):
        y = x
        if isinstance(x, Lin):
            y = x.subst(fn)
        elif isinstance(x, tuple):
            yl = [z.subst(fn) if isinstance(z, Lin) else z for z in x]
            if any(p is not q for p, q in zip(yl, x)):
                y = tuple(yl)
        if y is not x:
            if new is None:
                new = list(a)
            new[i] = y
    return tuple(new) if new is not None else a


def show_atom(a):
    k = a[0]
    if k == 'p':
        return a[1]
    if k == 'ld' or k == 'ml':
        return '%s%d[%r]' % (k, a[2] * 8, a[1])
    if k == 'k':
        return 'k%d' % a[1]
    if k == 'phi':
        return 'phi%d(%s)' % (a[1], a[2])
    if k == 'op':
        return 'op%d' % a[1]
    if k == 'div':
        return '(%r)/%d' % (a[1], a[2])
    if k == 'u':
        return '%s?' % a[1]
    if k == 'v':
        return 'valid(%s)' % a[1]
    return arepr(a)


def irange(iw):
    """value range of an integer type given as signed bit width"""
    if iw is None:
        return (None, None)
    if iw < 0:
        return (-(1 << (-iw - 1)), (1 << (-iw - 1)) - 1)
    return (0, (1 << iw) - 1)


def abounds(a):
    k = a[0]
    if k in ('ld', 'ml'):
        return irange(-8 * a[2] if a[3] else 8 * a[2])
    if k == 'p':
        if a[3]:
            return (0, LEN_MAX)
        return irange(a[2])
    if k == 'k':
        return (0, K_MAX)
    if k in ('op', 'phi', 'u', 'fn', 'blk', 'cs'):
        return irange(a[-1])
    if k == 'v':
        return (0, LEN_MAX)
    if k == 'div':
        lo, hi = lbounds(a[1])
        if lo is not None and lo >= 0:
            return (0, None if hi is None else hi // a[2])
        return (None, None)
    if k == 'band':
        return (0, a[2])
    if k == 'min':
        lo1, hi1 = lbounds(a[1])
        lo2, hi2 = lbounds(a[2])
        lo = None if lo1 is None or lo2 is None else min(lo1, lo2)
        hi = hi1 if hi2 is None else hi2 if hi1 is None else min(hi1, hi2)
        return (lo, hi)
    return (None, None)


def lbounds(x):
    lo = hi = x.c
    for a, k in x.t:
        alo, ahi = abounds(a)
        if k > 0:
            lo = None if lo is None or alo is None else lo + k * alo
            hi = None if hi is None or ahi is None else hi + k * ahi
        else:
            lo = None if lo is None or ahi is None else lo + k * ahi
            hi = None if hi is None or alo is None else hi + k * alo
    return lo, hi


def implicit_rows(x):
    """rows that hold by construction of the atoms mentioned in x"""
    out = []
    for a in x.all_atoms():
        if a[0] == 'div':
            d = Lin.atom(a)
            out.append(d.scale(a[2]).add(a[1], -1))                    # c*(x/c) - x <= 0
            out.append(a[1].add(d, -a[2]).addc(-(a[2] - 1)))           # x - c*(x/c) - (c-1) <= 0
        elif a[0] == 'min':
            m = Lin.atom(a)
            out.append(m.add(a[1], -1))
            out.append(m.add(a[2], -1))
    return out


def entails(facts, goal, depth=5, _memo=None, _extra=None):
    """goal <= 0 follows from rows (each <= 0) and the ranges of the atoms"""
    lo, hi = lbounds(goal)
    if hi is not None and hi <= 0:
        return True
    if depth == 0:
        return False
    if _memo is None:
        _memo = {}
        _extra = implicit_rows(goal)
    key = (goal, depth)
    if key in _memo:
        return _memo[key]
    _memo[key] = False
    # the atoms that keep the upper bound of the goal above zero
    prob = []
    for a, k in goal.t:
        alo, ahi = abounds(a)
        b = ahi if k > 0 else alo
        prob.append((0 if b is None else 1, arepr(a), a, k))
    prob.sort(key=lambda x: (x[0], x[1]))
    res = False
    rows = list(facts) + list(_extra)
    for _, _, a, k in prob:
        for r in rows:
            kr = r.coef(a)
            if kr == 0 or (kr > 0) != (k > 0):
                continue
            lam = Fraction(k, 1) / Fraction(kr, 1)
            g2 = goal.add(r, -lam)
            if entails(facts, g2, depth - 1, _memo, _extra):
                res = True
                break
        if res:
            break
    _memo[key] = res
    return res


# ------------------------------------------------------------------ state

class St(object):
    __slots__ = ('env', 'facts', 'cfacts')

    def __init__(self, env=None, facts=frozenset(), cfacts=frozenset()):
        self.env = env if env is not None else {}
        self.facts = facts
        self.cfacts = cfacts

    def copy(self):
        return St(dict(self.env), self.facts, self.cfacts)

    def same(self, o):
        return o is not None and self.env == o.env and self.facts == o.facts and self.cfacts == o.cfacts

    def mentions(self, pred):
        for x in self.env.values():
            if any(pred(a) for a in x.all_atoms()):
                return True
        return False


def _lin_mentions(x, pred):
    return any(pred(a) for a in x.all_atoms())


PURE_CALLS = ('__builtin_bswap16', '__builtin_bswap32', '__builtin_bswap64',
              'yr_bswap16', 'yr_bswap32', 'yr_bswap64', '__bswap_16', '__bswap_32', '__bswap_64')


class Shared(object):
    """what all function analyses of one run share"""

    def __init__(self, prog, fmt, scope_tus):
        self.prog = prog
        self.fmt = fmt                  # names of file-format records
        self.scope = scope_tus
        self.pre = {}                   # (tu, fn) -> set of rows over parameter atoms
        self.rets = {}                  # (tu, fn) -> [(const|None, ret Lin|None, frozenset rows)]
        self.windows = {}               # (tu, fn) -> [(base param, ('len', p) | ('limit', p) | ('valid',))]
        self.pred_fns = {}

    def record(self, name):
        return self.prog.records.get(name)


def byte_type(t):
    t = (t or '').replace('const ', '').replace('unsigned ', '').replace('signed ', '').strip()
    return t in ('uint8_t *', 'char *', 'void *', 'BYTE *', 'int8_t *')


class Analysis(object):
    def __init__(self, sh, f):
        self.sh = sh
        self.f = f
        self.prog = sh.prog
        self.key = (f.tu.name, f.name)
        self.pinfo = {p['name']: p for p in f.params}
        self.linfo = {l['name']: l for l in f.locals}
        self.escaped = set()
        for n in f.all_nodes():
            if n['k'] == 'un' and n['op'] == '&':
                x = cu.strip_casts(f, f.kid(n, 0))
                if x is not None and x['k'] == 'ref' and x.get('dk') in ('local', 'param'):
                    self.escaped.add(x['name'])
        self.windows = self._windows()
        self._loops()
        self.derefs = {}        # node id -> (node, proven, detail)
        self.callobs = []       # (call node, callee, row, proven)
        self.libobs = []
        self.stores = []
        self.ret_sites = []
        self.new_pre = set()
        self.n_facts = 0

    # ------------------------------------------------------------ windows
    def is_fmt_ptr(self, d):
        return d.get('prec') in self.sh.fmt

    def _windows(self):
        """[(base Lin, length Lin, label)] from the signature: a pointer to file
        bytes paired with the size_t parameter, or with a second pointer of the
        same byte type that the body compares it with (a limit)"""
        f = self.f
        ptrs = [p for p in f.params if 'ps' in p and (self.is_fmt_ptr(p) or byte_type(p.get('type')))]
        ints = [p for p in f.params if p.get('iw') and abs(p['iw']) >= 32 and 'ps' not in p]
        sz = [p for p in ints if p.get('type', '').replace('const ', '') == 'size_t']
        if len(sz) != 1:
            sz = [p for p in ints if p['iw'] == 64] if len([p for p in ints if p['iw'] == 64]) == 1 else sz
        out = []
        self.len_param = None
        self.limit_param = None
        if ptrs and len(sz) == 1:
            self.len_param = sz[0]['name']
            out.append((self.patom(ptrs[0]['name']), self.patom(sz[0]['name']), ptrs[0]['name']))
            rest = ptrs[1:]
        elif len(ptrs) >= 2 and byte_type(ptrs[0].get('type')) and ptrs[0].get('type') == ptrs[1].get('type') \
                and self._compared(ptrs[0]['name'], ptrs[1]['name']):
            self.limit_param = ptrs[1]['name']
            out.append((self.patom(ptrs[0]['name']),
                        self.patom(ptrs[1]['name']).add(self.patom(ptrs[0]['name']), -1), ptrs[0]['name']))
            rest = ptrs[2:]
        else:
            rest = ptrs
        for p in rest:
            if self.is_fmt_ptr(p):
                out.append((self.patom(p['name']), Lin.atom(('v', p['name'])), p['name']))
        return out

    def _compared(self, a, b):
        f = self.f
        for n in f.all_nodes():
            if n['k'] == 'bin' and n['op'] in ('<', '<=', '>', '>=', '-'):
                x, y = cu.strip_casts(f, f.kid(n, 0)), cu.strip_casts(f, f.kid(n, 1))
                names = set()
                for z in (x, y):
                    if z is not None and z['k'] == 'ref':
                        names.add(z['name'])
                if names == {a, b}:
                    return True
        return False

    def patom(self, name):
        p = self.pinfo[name]
        return Lin.atom(('p', name, p.get('iw'), name == getattr(self, 'len_param', None) and True or False))

    # -------------------------------------------------------------- loops
    def _loops(self):
        f = self.f
        dom = cu.dominators(f)
        self.back = set()
        self.heads = set()
        self.dominated = {}
        for b in f.blocks:
            for h in dom.get(b, ()):
                if h != b:
                    self.dominated.setdefault(h, set()).add(b)
        for b, bd in f.blocks.items():
            for s in bd['s']:
                if s is not None and s in dom.get(b, ()):
                    self.back.add((b, s))
                    self.heads.add(s)

    # --------------------------------------------------------- evaluation
    def opaque(self, n):
        return Lin.atom(('op', n['i'], n.get('iw')))

    def var_iw(self, name):
        d = self.pinfo.get(name) or self.linfo.get(name) or {}
        return d.get('iw')

    def fits(self, st, x, iw):
        if iw is None:
            return True
        lo_t, hi_t = irange(iw)
        lo, hi = lbounds(x)
        if lo is not None and hi is not None and lo >= lo_t and hi <= hi_t:
            return True
        ok_hi = (hi is not None and hi <= hi_t) or entails(st.facts, x.addc(-hi_t), 3)
        if not ok_hi:
            return False
        ok_lo = (lo is not None and lo >= lo_t) or entails(st.facts, x.scale(-1).addc(lo_t), 3)
        return ok_lo

    def convert(self, st, x, n, iw):
        """value x converted to integer type iw at node n"""
        if iw is None or self.fits(st, x, iw):
            return x
        return Lin.atom(('op', n['i'], iw))

    def field(self, rec, name):
        r = self.sh.record(rec)
        if r is None:
            return None
        for fl in r.get('fields', []):
            if fl['name'] == name:
                return fl
        return None

    def size_of(self, n):
        if n.get('iw'):
            return abs(n['iw']) // 8
        if 'ps' in n:
            return 8
        if n.get('trec'):
            r = self.sh.record(n['trec'])
            return r.get('size') if r else None
        return None

    def lv_addr(self, st, n):
        """address of an lvalue expression as a linear form, or None"""
        f = self.f
        k = n['k']
        if k == 'cast':
            return self.lv_addr(st, f.kid(n, 0))
        if k == 'member':
            fl = self.field(n.get('rec'), n['fld'])
            if fl is None:
                return None
            if n.get('arrow'):
                base = self.ev(st, f.kid(n, 0))
            else:
                base = self.lv_addr(st, f.kid(n, 0))
            if base is None:
                return None
            return base.addc(fl.get('offset', 0))
        if k == 'sub':
            b = f.kid(n, 0)
            bb = cu.strip_casts(f, b)
            idx = self.ev(st, f.kid(n, 1))
            es = self.size_of(n)
            if es is None:
                return None
            if bb is not None and '[' in (bb.get('t') or '') and bb['k'] in ('member', 'sub'):
                base = self.lv_addr(st, bb)
            else:
                base = self.ev(st, b)
            if base is None:
                return None
            return base.add(idx, es)
        if k == 'un' and n['op'] == '*':
            return self.ev(st, f.kid(n, 0))
        return None

    def window_related(self, addr, ptr_node):
        for a in addr.all_atoms():
            if a[0] == 'p' and any(a == w[0].t[0][0] for w in self.windows):
                return True
            if a[0] == 'blk':
                return True
        return False

    def ptr_node_of(self, n):
        """the pointer expression an access goes through"""
        f = self.f
        while n is not None:
            if n['k'] == 'cast':
                n = f.kid(n, 0)
            elif n['k'] == 'member':
                if n.get('arrow'):
                    return f.kid(n, 0)
                n = f.kid(n, 0)
            elif n['k'] == 'sub':
                b = cu.strip_casts(f, f.kid(n, 0))
                if b is not None and '[' in (b.get('t') or '') and b['k'] in ('member', 'sub'):
                    n = b
                else:
                    return f.kid(n, 0)
            elif n['k'] == 'un' and n['op'] == '*':
                return f.kid(n, 0)
            else:
                return None
        return None

    def load(self, st, n):
        f = self.f
        a = self.lv_addr(st, n)
        size = self.size_of(n)
        if a is None or size is None:
            return self.opaque(n)
        iw = n.get('iw')
        signed = bool(iw is not None and iw < 0)
        pn = self.ptr_node_of(n)
        fmtp = pn is not None and pn.get('prec') in self.sh.fmt
        if 'ps' in n:
            # a pointer stored in memory: not file data
            return Lin.atom(('ml', a, size, False)) if not fmtp else self.opaque(n)
        if fmtp or self.window_related(a, pn):
            return Lin.atom(('ld', a, size, signed))
        return Lin.atom(('ml', a, size, signed))

    def ev(self, st, n):
        f = self.f
        if n is None:
            return Lin.atom(('op', -1, None))
        c = cu.const_of(n)
        if c is not None and n['k'] not in ('decl',):
            return Lin.const(c)
        k = n['k']
        v = st.env.get(('%v', n['i']))
        if v is not None:
            return v
        if k == 'ref':
            if n.get('dk') in ('local', 'param'):
                nm = n['name']
                if nm in self.escaped:
                    return self.opaque(n)
                x = st.env.get(nm)
                if x is not None:
                    return x
                if n.get('dk') == 'param' and nm in self.pinfo:
                    return self.patom(nm)
                return Lin.atom(('u', nm, n.get('iw')))
            return self.opaque(n)
        if k == 'cast':
            x = self.ev(st, f.kid(n, 0))
            if 'ps' in n or n.get('iw') is None:
                return x
            kid = f.kid(n, 0)
            if kid is not None and 'ps' in kid:
                return x
            return self.convert(st, x, n, n.get('iw'))
        if k in ('member', 'sub') or (k == 'un' and n['op'] == '*'):
            if '[' in (n.get('t') or ''):
                a = self.lv_addr(st, n)           # array decays to its address
                return a if a is not None else self.opaque(n)
            return self.load(st, n)
        if k == 'un':
            op = n['op']
            if op == '&':
                a = self.lv_addr(st, f.kid(n, 0))
                return a if a is not None else self.opaque(n)
            if op == '-':
                x = self.ev(st, f.kid(n, 0)).scale(-1)
                return self.convert(st, x, n, n.get('iw'))
            if op == '+':
                return self.ev(st, f.kid(n, 0))
            return self.opaque(n)
        if k == 'bin':
            return self.ev_bin(st, n)
        if k == 'call':
            cal = n.get('callee')
            if cal in PURE_CALLS:
                args = tuple(self.ev(st, a) for a in f.call_args(n))
                return Lin.atom(('fn', cal, args, n.get('iw')))
            return self.opaque(n)
        if k == 'cond':
            return self.ev_cond(st, n)
        if k == 'sizeof' or k == 'offsetof':
            return self.opaque(n)
        return self.opaque(n)

    def ev_cond(self, st, n):
        """MIN / MAX written as a conditional expression"""
        f = self.f
        c = cu.strip_casts(f, f.kid(n, 0))
        a, b = f.kid(n, 1), f.kid(n, 2)
        if c is not None and c['k'] == 'bin' and c['op'] in ('<', '<=', '>', '>=') and a is not None and b is not None:
            ca, cb = self.ev(st, f.kid(c, 0)), self.ev(st, f.kid(c, 1))
            va, vb = self.ev(st, a), self.ev(st, b)
            if c['op'] in ('>', '>='):
                ca, cb = cb, ca
            # (ca < cb) ? va : vb  is the minimum when va == ca and vb == cb
            if va == ca and vb == cb:
                x, y = sorted((va, vb), key=repr)
                return Lin.atom(('min', x, y))
        return self.opaque(n)

    def ev_bin(self, st, n):
        f = self.f
        op = n['op']
        if op in ('=', '+=', '-=', '*=', '/=', '%=', '&=', '|=', '^=', '<<=', '>>=', ','):
            if op == ',':
                return self.ev(st, f.kid(n, 1))
            return self.opaque(n)
        a_n, b_n = f.kid(n, 0), f.kid(n, 1)
        if op in ('<', '<=', '>', '>=', '==', '!=', '&&', '||'):
            return self.opaque(n)
        a, b = self.ev(st, a_n), self.ev(st, b_n)
        iw = n.get('iw')
        if 'ps' in n:
            # pointer arithmetic
            ps = n['ps']
            pa, pb = a_n is not None and 'ps' in a_n, b_n is not None and 'ps' in b_n
            if op == '+':
                ptr, off = (a, b) if pa else (b, a)
            elif op == '-' and pa and not pb:
                ptr, off = a, b.scale(-1)
            else:
                return self.opaque(n)
            lo, hi = lbounds(off)
            okr = (hi is not None and abs(hi) <= LEN_MAX) or entails(st.facts, off.addc(-LEN_MAX), 3)
            okl = (lo is not None and abs(lo) <= LEN_MAX) or entails(st.facts, off.scale(-1).addc(-LEN_MAX), 3)
            if not (okr and okl):
                return self.opaque(n)
            return ptr.add(off, ps)
        if op == '-' and a_n is not None and b_n is not None and 'ps' in a_n and 'ps' in b_n:
            d = a.add(b, -1)
            ps = a_n['ps']
            if ps == 1:
                return d
            if all(k % ps == 0 for _, k in d.t) and d.c % ps == 0:
                return d.scale(Fraction(1, ps))
            return self.opaque(n)
        if iw is None:
            return self.opaque(n)
        a = self.convert(st, a, a_n or n, iw)
        b = self.convert(st, b, b_n or n, iw)
        if op == '+':
            return self.convert(st, a.add(b), n, iw)
        if op == '-':
            return self.convert(st, a.add(b, -1), n, iw)
        if op == '*':
            if a.is_const():
                return self.convert(st, b.scale(a.c), n, iw)
            if b.is_const():
                return self.convert(st, a.scale(b.c), n, iw)
            return self.opaque(n)
        if op == '/':
            if b.is_const() and b.c > 0:
                lo, _ = lbounds(a)
                if a.is_const():
                    return Lin.const(a.c // b.c)
                if lo is not None and lo >= 0:
                    if b.c == 1:
                        return a
                    return Lin.atom(('div', a, b.c))
            return self.opaque(n)
        if op == '>>':
            if b.is_const() and 0 <= b.c < 63:
                lo, _ = lbounds(a)
                if lo is not None and lo >= 0:
                    return Lin.atom(('div', a, 1 << b.c)) if b.c else a
            return self.opaque(n)
        if op == '<<':
            if b.is_const() and 0 <= b.c < 63:
                return self.convert(st, a.scale(1 << b.c), n, iw)
            return self.opaque(n)
        if op == '&':
            for x, y in ((a, b), (b, a)):
                if y.is_const() and y.c >= 0:
                    return Lin.atom(('band', x, y.c, n['i']))
            return self.opaque(n)
        return self.opaque(n)

    # ------------------------------------------------------ condition rows
    @staticmethod
    def common_iw(a, b):
        """usual arithmetic conversions over signed bit widths"""
        def promote(w):
            if w is None:
                return None
            if abs(w) < 32:
                return -32
            return w
        a, b = promote(a), promote(b)
        if a is None or b is None:
            return None
        if a == b:
            return a
        if (a < 0) == (b < 0):
            return a if abs(a) >= abs(b) else b
        s, u = (a, b) if a < 0 else (b, a)
        if u >= -s:
            return u
        return s

    def cmp_rows(self, st, ev, n, pol):
        """rows implied by comparison node n evaluated with `ev` having truth value pol"""
        f = ev.f
        op = n['op']
        a_n, b_n = f.kid(n, 0), f.kid(n, 1)
        a, b = ev.ev(st, a_n), ev.ev(st, b_n)
        pa = a_n is not None and 'ps' in a_n
        pb = b_n is not None and 'ps' in b_n
        if not (pa or pb):
            ia = a_n.get('iw') if a_n is not None else None
            ib = b_n.get('iw') if b_n is not None else None
            T = self.common_iw(ia, ib)
            if T is None or not self.fits(st, a, T) or not self.fits(st, b, T):
                return []
        if not pol:
            op = {'<': '>=', '<=': '>', '>': '<=', '>=': '<', '==': '!=', '!=': '=='}[op]
        d = a.add(b, -1)
        if op == '<':
            return [d.addc(1)]
        if op == '<=':
            return [d]
        if op == '>':
            return [d.scale(-1).addc(1)]
        if op == '>=':
            return [d.scale(-1)]
        if op == '==':
            return [d, d.scale(-1)]
        return []

    def cond_rows(self, st, ev, n, pol, depth=0):
        """(rows, released) for condition node n having truth value pol; `released`
        lists (value Lin, 'nz'|'z'|const) tests that release conditional facts"""
        f = ev.f
        rows, rel = [], []
        while n is not None and n['k'] == 'cast':
            n = f.kid(n, 0)
        if n is None:
            return rows, rel
        if n['k'] == 'un' and n['op'] == '!':
            return self.cond_rows(st, ev, f.kid(n, 0), not pol, depth)
        if n['k'] == 'bin' and n['op'] in ('&&', '||'):
            if (n['op'] == '&&') == pol:
                for i in (0, 1):
                    r2, l2 = self.cond_rows(st, ev, f.kid(n, i), pol, depth)
                    rows += r2
                    rel += l2
            return rows, rel
        if n['k'] == 'bin' and n['op'] in ('<', '<=', '>', '>=', '==', '!='):
            rows += self.cmp_rows(st, ev, n, pol)
            if n['op'] in ('==', '!='):
                a, b = ev.ev(st, f.kid(n, 0)), ev.ev(st, f.kid(n, 1))
                for x, y in ((a, b), (b, a)):
                    if y.is_const():
                        eq = (n['op'] == '==') == pol
                        if eq:
                            rel.append((x, y.c))
                        elif y.c == 0:
                            rel.append((x, 'nz'))
            return rows, rel
        if n['k'] == 'call' and depth < 2 and pol:
            g = self.prog.fn(n.get('callee') or '', f.tu)
            e = self.sh_predicate(g)
            if e is not None:
                args = f.call_args(n)
                sub = _Inline(self, ev, g, [ev.ev(st, a) for a in args])
                r2, l2 = self.cond_rows(st, sub, e, True, depth + 1)
                rows += r2
            return rows, rel
        # truthiness of a value
        x = ev.ev(st, n)
        rel.append((x, 'nz' if pol else 0))
        if not pol:
            rows += [x, x.scale(-1)]
        return rows, rel

    def sh_predicate(self, g):
        """the expression of a function whose body is `return E;`"""
        if g is None:
            return None
        k = (g.tu.name, g.name)
        if k in self.sh.pred_fns:
            return self.sh.pred_fns[k]
        e = None
        body = g.nodes[0] if g.nodes else None
        if body is not None and body['k'] == 'compound':
            ks = g.kids(body)
            if len(ks) == 1 and ks[0]['k'] == 'ret' and ks[0].get('c'):
                e = g.kid(ks[0], 0)
        self.sh.pred_fns[k] = e
        return e

    # ----------------------------------------------------------- transfer
    def retire(self, st, pred):
        """forget what is known about atoms selected by pred (their next value is another one);
        a variable whose value mentioned one becomes an unknown ('u', var), and whatever was
        known about an earlier unknown value of that variable goes as well"""
        env = st.env
        stale = set()
        while True:
            def p2(a):
                return pred(a) or (a[0] == 'u' and a[1] in stale)
            more = set(v for v, x in env.items() if not isinstance(v, tuple) and v not in stale and
                       _lin_mentions(x, p2))
            if not more:
                break
            stale |= more

        def p3(a):
            return pred(a) or (a[0] == 'u' and a[1] in stale)
        facts = frozenset(r for r in st.facts if not _lin_mentions(r, p3))
        cf = frozenset(c for c in st.cfacts if not any(_lin_mentions(r, p3) for r in c[2]) and
                       not _lin_mentions(c[0], p3))
        new = None
        for v, x in env.items():
            if v in stale or (isinstance(v, tuple) and _lin_mentions(x, p3)):
                if new is None:
                    new = dict(env)
                if isinstance(v, tuple):
                    del new[v]
                else:
                    new[v] = Lin.atom(('u', v, self.var_iw(v)))
        if new is None and facts == st.facts and cf == st.cfacts:
            return st
        return St(new if new is not None else env, facts, cf)

    def assign(self, st, name, x):
        if name in self.escaped:
            return st
        st = st.copy()
        # ('u', name) stands for "some unknown value of name": a new unknown value must not
        # inherit facts about the previous one
        st.env[name] = x
        return st

    def set_val(self, st, n, x):
        st = st.copy()
        st.env[('%v', n['i'])] = x
        return st

    def target(self, n):
        x = cu.strip_casts(self.f, n)
        if x is not None and x['k'] == 'ref' and x.get('dk') in ('local', 'param'):
            return x['name']
        return None

    def is_access(self, n):
        """n (member / sub / unary *) reads or writes memory itself"""
        f = self.f
        if '[' in (n.get('t') or ''):
            return False
        p = f.parent(n)
        while p is not None and p['k'] == 'cast':
            n, p = p, f.parent(p)
        if p is None:
            return True
        if p['k'] == 'un' and p['op'] == '&':
            return False
        if p['k'] == 'member' and not p.get('arrow') and f.kid(p, 0) is n:
            return False
        if p['k'] == 'sizeof':
            return False
        return True

    def step(self, n, st):
        f = self.f
        k = n['k']
        if k in ('member', 'sub') or (k == 'un' and n['op'] == '*'):
            if self.is_access(n):
                self.check_access(st, n)
            return st
        if k == 'decl':
            if n.get('c'):
                x = self.ev(st, f.kid(n, 0))
                if 'ps' not in n and n.get('iw') is not None:
                    x = self.convert(st, x, n, n.get('iw'))
                elif 'ps' not in n and n.get('iw') is None:
                    return st
                return self.assign(st, n['name'], x)
            if n['name'] in st.env:
                st = st.copy()
                del st.env[n['name']]
            return st
        if k == 'bin' and n['op'] == '=':
            l = f.kid(n, 0)
            name = self.target(l)
            x = self.ev(st, f.kid(n, 1))
            if name is not None:
                iw = self.var_iw(name)
                if iw is not None:
                    x = self.convert(st, x, n, iw)
                st = self.assign(st, name, x)
                return self.set_val(st, n, x)
            self.note_store(st, l)
            st = self.retire(st, lambda a: a[0] == 'ml')
            return self.set_val(st, n, x)
        if k == 'bin' and n['op'] in ('+=', '-=', '*=', '/=', '%=', '&=', '|=', '^=', '<<=', '>>='):
            l = f.kid(n, 0)
            name = self.target(l)
            if name is None:
                self.note_store(st, l)
                return self.retire(st, lambda a: a[0] == 'ml')
            old = self.ev(st, l)
            r = self.ev(st, f.kid(n, 1))
            ln = cu.strip_casts(f, l)
            if n['op'] in ('+=', '-=') :
                sgn = 1 if n['op'] == '+=' else -1
                if ln is not None and 'ps' in ln:
                    x = old.add(r, sgn * ln['ps'])
                else:
                    x = self.convert(st, old.add(r, sgn), n, self.var_iw(name))
            else:
                x = Lin.atom(('op', n['i'], self.var_iw(name)))
            st = self.assign(st, name, x)
            return self.set_val(st, n, x)
        if k == 'un' and n['op'] in ('++', '--', 'post++', 'post--'):
            l = f.kid(n, 0)
            name = self.target(l)
            if name is None:
                self.note_store(st, l)
                return self.retire(st, lambda a: a[0] == 'ml')
            old = self.ev(st, l)
            ln = cu.strip_casts(f, l)
            stepv = ln['ps'] if ln is not None and 'ps' in ln else 1
            if '--' in n['op']:
                stepv = -stepv
            x = old.addc(stepv)
            if ln is not None and 'ps' not in ln:
                x = self.convert(st, x, n, self.var_iw(name))
            st = self.assign(st, name, x)
            return self.set_val(st, n, old if n['op'].startswith('post') else x)
        if k == 'call':
            return self.do_call(st, n)
        if k == 'ret':
            if n.get('c'):
                self.ret_sites.append((n, self.ev(st, f.kid(n, 0)), st.facts))
            else:
                self.ret_sites.append((n, None, st.facts))
            return None
        return st

    def note_store(self, st, l):
        f = self.f
        x = cu.strip_casts(f, l)
        if x is None or x['k'] not in ('member', 'sub', 'un'):
            return
        pn = self.ptr_node_of(x)
        a = self.lv_addr(st, x)
        if (pn is not None and pn.get('prec') in self.sh.fmt) or (a is not None and self.window_related(a, pn)):
            self.stores.append(x)

    # ---------------------------------------------------------- obligations
    def in_window_goals(self, addr, size):
        """for each window: the two rows whose truth puts [addr, addr+size) inside it"""
        out = []
        for base, length, label in self.windows:
            up = addr.addc(size).add(base, -1).add(length, -1)
            lowr = base.add(addr, -1)
            out.append((label, up, lowr))
        return out

    def prove_in_window(self, st, addr, size):
        """True / ('pre', rows) / False"""
        pre = None
        for label, up, lowr in self.in_window_goals(addr, size):
            if entails(st.facts, up) and entails(st.facts, lowr):
                return True
            if pre is None and self.only_params(up) and self.only_params(lowr):
                rows = [r for r in (up, lowr) if not entails(st.facts, r)]
                pre = ('pre', rows)
        return pre if pre is not None else False

    @staticmethod
    def only_params(x):
        return all(a[0] in ('p', 'v') for a in x.all_atoms())

    def check_access(self, st, n):
        f = self.f
        pn = self.ptr_node_of(n)
        a = self.lv_addr(st, n)
        size = self.size_of(n)
        fmtp = pn is not None and pn.get('prec') in self.sh.fmt
        if a is None or size is None:
            if fmtp:
                self.derefs[n['i']] = (n, False, 'address not understood')
            return
        if not (fmtp or self.window_related(a, pn)):
            return
        r = self.prove_in_window(st, a, size)
        if r is True:
            self.derefs.setdefault(n['i'], (n, True, ''))
            return
        if isinstance(r, tuple):
            for row in r[1]:
                self.new_pre.add(row)
            self.derefs.setdefault(n['i'], (n, True, 'precondition'))
            return
        self.derefs[n['i']] = (n, False, 'address %r, %d bytes' % (a, size))

    # ---------------------------------------------------------------- calls
    def do_call(self, st, n):
        f = self.f
        cal = n.get('callee')
        if cal in PURE_CALLS:
            return st
        g = self.prog.fn(cal or '', f.tu) if cal else None
        args = f.call_args(n)
        res = self.opaque(n)
        fp = n.get('fnptr') or {}
        if not cal and (fp.get('field') == 'fetch_data' or self._is_fetch(n)):
            # the bytes of a memory block: valid for block->size bytes
            if args:
                blk = self.ev(st, args[0])
                res = Lin.atom(('blk', blk, None))
                st = self.set_val(st, n, res)
                return st
        if g is not None and (g.tu.name, g.name) in self.sh.windows and g.tu.name in self.sh.scope:
            gk = (g.tu.name, g.name)
            binding = {}
            for i, p in enumerate(g.params):
                if i < len(args):
                    binding[p['name']] = self.ev(st, args[i])

            def inst(a):
                if a[0] == 'p':
                    return binding.get(a[1])
                if a[0] == 'v':
                    return self.valid_bytes(st, binding.get(a[1]))
                return None
            # the callee's window must lie inside memory that is valid here
            for base_p, kind in self.sh.windows[gk]:
                if base_p not in binding:
                    continue
                b = binding[base_p]
                if kind[0] == 'len' and kind[1] in binding:
                    ln = binding[kind[1]]
                    ok = self.span_valid(st, b, ln)
                    self.callobs.append((n, g.name, 'window', ok))
                elif kind[0] == 'limit' and kind[1] in binding:
                    ok = self.span_valid(st, b, binding[kind[1]].add(b, -1), allow_empty=True)
                    self.callobs.append((n, g.name, 'window', ok))
            for row in sorted(self.sh.pre.get(gk, ()), key=repr):
                try:
                    r2 = row.subst(inst)
                except Unsupported:
                    self.callobs.append((n, g.name, repr(row), False))
                    continue
                ok = entails(st.facts, r2)
                if not ok and self.only_params(r2):
                    self.new_pre.add(r2)
                    ok = True
                self.callobs.append((n, g.name, repr(row), ok))
            # what the callee's return sites say, released when the result is tested
            st = self.retire(st, lambda a: a[0] == 'ml')
            cf = set(st.cfacts)
            for const, rl, rows in self.sh.rets.get(gk, ()):
                rr = []
                bad = False
                for row in rows:
                    try:
                        rr.append(row.subst(inst))
                    except Unsupported:
                        bad = True
                if rl is not None:
                    try:
                        r2 = rl.subst(inst)
                        if not any(a[0] in ('op', 'phi', 'k', 'u') for a in r2.all_atoms()):
                            rr.append(res.add(r2, -1))
                            rr.append(r2.add(res, -1))
                    except Unsupported:
                        pass
                cf.add((res, const, frozenset(rr)))
            st = St(st.env, st.facts, frozenset(cf))
            return self.set_val(st, n, res)
        lib = LIBC_READERS.get(cal)
        if lib is not None:
            for pi, ni in lib:
                if pi < len(args) and (ni is None or ni < len(args)):
                    p = self.ev(st, args[pi])
                    pn = cu.strip_casts(f, args[pi])
                    if not self.window_related(p, pn):
                        continue
                    ln = self.ev(st, args[ni]) if ni is not None else None
                    ok = ln is not None and self.span_valid(st, p, ln, allow_empty=True)
                    self.libobs.append((n, cal, pi, ok))
        if cal is None or g is not None or cal not in NO_EFFECT_CALLS:
            st = self.retire(st, lambda a: a[0] == 'ml')
        return self.set_val(st, n, res)

    def _is_fetch(self, n):
        f = self.f
        c0 = cu.strip_casts(f, f.kid(n, 0))
        return c0 is not None and c0['k'] == 'member' and c0.get('fld') == 'fetch_data'

    def valid_bytes(self, st, ptr):
        """a linear form for the number of bytes valid at ptr, from this function's windows"""
        if ptr is None:
            raise Unsupported()
        for base, length, label in self.windows:
            d = ptr.add(base, -1)
            if not any(a[0] == 'p' and 'ps' in self.pinfo.get(a[1], {}) for a in d.all_atoms() if a[0] == 'p'):
                return length.add(d, -1)
        for a in ptr.all_atoms():
            if a[0] == 'blk':
                return self.block_size(a).add(ptr.add(Lin.atom(a), -1), -1)
        raise Unsupported()

    def block_size(self, blk_atom):
        fl = self.field('YR_MEMORY_BLOCK', 'size') or self.field('_YR_MEMORY_BLOCK', 'size')
        if fl is None:
            raise Unsupported()
        return Lin.atom(('ml', blk_atom[1].addc(fl['offset']), fl['size'], False))

    def span_valid(self, st, ptr, ln, allow_empty=False):
        """[ptr, ptr+ln) lies inside one of this function's windows (or block)"""
        for base, length, label in self.windows:
            up = ptr.add(ln).add(base, -1).add(length, -1)
            lowr = base.add(ptr, -1)
            if entails(st.facts, up) and entails(st.facts, lowr):
                return True
            if self.only_params(up) and self.only_params(lowr) and not ln.is_const():
                pass
        for a in ptr.all_atoms():
            if a[0] == 'blk':
                try:
                    size = self.block_size(a)
                except Unsupported:
                    continue
                off = ptr.add(Lin.atom(a), -1)
                if entails(st.facts, off.add(ln).add(size, -1)) and entails(st.facts, off.scale(-1)):
                    return True
        return False

    # ----------------------------------------------------------------- edges
    def edge(self, st, term, cond, idx, succ):
        f = self.f
        rows, rel = [], []
        if term is not None and term['k'] == 'switch':
            lab = paths.switch_case_of(f, term, succ)
            if lab is not None and lab['k'] == 'case' and cond is not None and 'v' in lab:
                x = self.ev(st, cond)
                # a block reached by fall-through from another case is not decided by this edge
                rel.append((x, lab['v']))
                rows += [x.addc(-lab['v']), x.scale(-1).addc(lab['v'])]
                if len([p for p in f.preds().get(succ, ())]) > 1:
                    rows, rel = [], []
        else:
            pol = paths.branch_polarity(f, term, idx)
            if pol is not None and cond is not None:
                c = paths.effective_cond(f, cond)
                rows, rel = self.cond_rows(st, self, c, pol)
        if not rows and not rel:
            return st
        facts = set(st.facts)
        for r in rows:
            if r.is_const():
                if r.c > 0:
                    return None         # edge cannot be taken
                continue
            facts.add(r)
        cf = st.cfacts
        if rel and cf:
            def compatible(c, what):
                if c[1] is None:
                    return True
                if what == 'nz':
                    return c[1] != 0
                return c[1] == what
            cfs = set(cf)
            for x, what in rel:
                mine = [c for c in cfs if c[0] == x]
                if not mine:
                    continue
                comp = [c for c in mine if compatible(c, what)]
                if not comp:
                    return None         # no return site of the callee produces this outcome
                common = None
                for c in comp:
                    common = set(c[2]) if common is None else (common & set(c[2]))
                facts |= common
                cfs -= set(mine)
                cfs |= set(comp)
            cf = frozenset(cfs)
        self.n_facts += len(rows)
        return St(st.env, frozenset(facts), cf)

    # ------------------------------------------------------------------ join
    def join(self, b, states):
        if len(states) == 1:
            return states[0]
        env = {}
        names = set(states[0].env)
        for s in states[1:]:
            names &= set(s.env)
        for v in names:
            x = states[0].env[v]
            if all(s.env[v] == x for s in states[1:]):
                env[v] = x
            elif not isinstance(v, tuple):
                env[v] = Lin.atom(('phi', b, v, self.var_iw(v)))
        for s in states:
            for v in s.env:
                if v not in names and not isinstance(v, tuple):
                    env[v] = Lin.atom(('phi', b, v, self.var_iw(v)))
        facts = states[0].facts
        cf = states[0].cfacts
        for s in states[1:]:
            facts = facts & s.facts
            cf = cf & s.cfacts
        return St(env, facts, cf)

    def head_state(self, h, entry, backs):
        """state at loop head h from the joined entry state and the states on its back edges"""
        K = ('k', h)
        katom = Lin.atom(K)

        def shift(a):
            return katom.addc(-1) if a == K else None

        def zero(a):
            return Lin.const(0) if a == K else None
        ind = self.ind.setdefault(h, {})
        env = {}
        for v, x in entry.env.items():
            if isinstance(v, tuple):
                continue
            if v in ind:
                if ind[v] == 'phi':
                    env[v] = Lin.atom(('phi', h, v, self.var_iw(v)))
                else:
                    env[v] = x.add(katom, ind[v])
            else:
                env[v] = x
        facts = entry.facts
        changed = False
        sb = []
        for s in backs:
            e2 = {v: x.subst(shift) for v, x in s.env.items() if not isinstance(v, tuple)}
            f2 = frozenset(r.subst(shift) for r in s.facts)
            sb.append((e2, f2))
        for e2, f2 in sb:
            for v in list(env):
                if ind.get(v) == 'phi':
                    continue
                bx = e2.get(v)
                if bx is None:
                    if ind.get(v) != 'phi':
                        ind[v] = 'phi'
                        changed = True
                    continue
                if bx == env[v]:
                    continue
                if v not in ind:
                    # back value in terms of k (unshifted) minus head value: a constant step?
                    d = bx.add(env[v], -1)
                    # env[v] has no k yet; bx was shifted, so compare unshifted form
                    if d.is_const() and d.c != 0 and not _lin_mentions(env[v], lambda a: a == K):
                        ind[v] = d.c
                        changed = True
                        continue
                if DEBUG:
                    print('ind->phi', h, v, 'head', env[v], 'back', bx)
                ind[v] = 'phi'
                changed = True
        if changed:
            # the states on the back edges were computed from the previous head state
            self.stale_heads.add(h)
            return self.head_state(h, entry, [])
        # facts: those of the entry that every back edge still has, plus rows about k that hold
        # at k = 0 on entry and after every iteration
        keep = set()
        for r in facts:
            if all(r in f2 for _, f2 in sb):
                keep.add(r)
        if sb:
            cand = None
            for _, f2 in sb:
                ks = set(r for r in f2 if _lin_mentions(r, lambda a: a == K))
                cand = ks if cand is None else (cand & ks)
            for r in cand or ():
                r0 = r.subst(zero)
                if entails(entry.facts, r0, 3):
                    keep.add(r)
        cf = entry.cfacts
        for s in backs:
            cf = cf & s.cfacts
        return St(env, frozenset(keep), cf)

    # ------------------------------------------------------------------- run
    def run(self, pre_rows=()):
        f = self.f
        self.ind = {}
        self.stale_heads = set()
        self.derefs = {}
        self.callobs = []
        self.libobs = []
        self.stores = []
        self.ret_sites = []
        self.new_pre = set()
        init = St({}, frozenset(pre_rows), frozenset())
        out = {}            # (block, succ index) -> St
        ins = {}
        preds = {}
        for b, bd in f.blocks.items():
            for i, s in enumerate(bd['s']):
                if s is not None:
                    preds.setdefault(s, []).append((b, i))
        work = [f.entry]
        queued = {f.entry}
        rounds = 0
        nb = f.node_block()
        while work:
            rounds += 1
            if rounds > 20000:
                raise paths.Budget('window analysis does not converge in %s' % f.name)
            b = work.pop(0)
            queued.discard(b)
            if b == f.entry:
                st = init
            else:
                ent = [out[e] for e in preds.get(b, ()) if e in out and (e[0], b) not in self.back]
                bk = [out[e] for e in preds.get(b, ()) if e in out and (e[0], b) in self.back]
                if not ent:
                    continue
                st = self.join(b, ent)
                if b in self.heads:
                    K = ('k', b)
                    st = self.retire(st, lambda a: a == K)
                    self.stale_heads.discard(b)
                    st = self.head_state(b, st, bk)
                    if b in self.stale_heads:
                        for e in preds.get(b, ()):
                            if (e[0], b) in self.back:
                                out.pop(e, None)
            if b in ins and st.same(ins[b]):
                continue
            if b in self.heads and b in ins:
                # everything computed inside the loop from the previous head state is stale
                for d_ in self.dominated[b]:
                    ins.pop(d_, None)
                    for i_, s_ in enumerate(f.blocks[d_]['s']):
                        out.pop((d_, i_), None)
            ins[b] = st
            cur = self.run_block(b, st, nb)
            bd = f.blocks[b]
            if cur is None or bd.get('noreturn'):
                for i, s in enumerate(bd['s']):
                    out.pop((b, i), None)
                continue
            term = f.node(bd.get('term')) if bd.get('term') is not None else None
            cond = f.node(bd.get('cond')) if bd.get('cond') is not None else None
            for i, s in enumerate(bd['s']):
                if s is None:
                    continue
                s2 = self.edge(cur, term, cond, i, s)
                if s2 is None:
                    if (b, i) in out:
                        del out[(b, i)]
                        if s not in queued:
                            work.append(s)
                            queued.add(s)
                    continue
                s2 = self.drop_vals(s2, s)
                old = out.get((b, i))
                if old is None or not s2.same(old):
                    out[(b, i)] = s2
                    if s not in queued:
                        work.append(s)
                        queued.add(s)
        # final pass: obligations with the states of the fixpoint
        self.derefs = {}
        self.callobs = []
        self.libobs = []
        self.stores = []
        self.ret_sites = []
        self.new_pre = set()
        self.final = True
        for b, st in ins.items():
            self.run_block(b, st, nb)
        self.ins = ins
        return self

    def drop_vals(self, st, succ):
        """values of side-effecting sub-expressions are only needed until the enclosing
        full expression has been evaluated; keep them across the blocks of one expression"""
        return st

    def run_block(self, b, st, nb):
        f = self.f
        bd = f.blocks[b]
        cur = st
        for e in bd['e']:
            n = f.nodes[e]
            if n is None:
                continue
            cur = self.step(n, cur)
            if cur is None:
                return None
        term = f.node(bd.get('term')) if bd.get('term') is not None else None
        if term is not None and term['k'] in ('ret', 'goto', 'break', 'continue') and term['i'] not in nb:
            cur = self.step(term, cur)
        return cur


class _Inline(object):
    """evaluates the return expression of a one-line predicate with its parameters bound
    to the caller's argument values"""

    def __init__(self, an, outer_ev, g, args):
        self.an = an
        self.f = g
        self.bind = {}
        for i, p in enumerate(g.params):
            if i < len(args):
                self.bind[p['name']] = args[i]

    def ev(self, st, n):
        g = self.f
        an = self.an
        if n is None:
            return Lin.atom(('op', -1, None))
        c = cu.const_of(n)
        if c is not None:
            return Lin.const(c)
        if n['k'] == 'ref' and n.get('dk') == 'param' and n['name'] in self.bind:
            return self.bind[n['name']]
        if n['k'] == 'cast':
            x = self.ev(st, g.kid(n, 0))
            kid = g.kid(n, 0)
            if 'ps' in n or n.get('iw') is None or (kid is not None and 'ps' in kid):
                return x
            if an.fits(st, x, n.get('iw')):
                return x
            return Lin.atom(('op', ('inl', g.name, n['i']), n.get('iw')))
        if n['k'] == 'bin' and n['op'] in ('+', '-') :
            a_n, b_n = g.kid(n, 0), g.kid(n, 1)
            a, b = self.ev(st, a_n), self.ev(st, b_n)
            if 'ps' in n:
                ps = n['ps']
                pa = a_n is not None and 'ps' in a_n
                if n['op'] == '+':
                    ptr, off = (a, b) if pa else (b, a)
                else:
                    ptr, off = a, b.scale(-1)
                lo, hi = lbounds(off)
                if not ((hi is not None and abs(hi) <= LEN_MAX) or entails(st.facts, off.addc(-LEN_MAX), 3)):
                    return Lin.atom(('op', ('inl', g.name, n['i']), None))
                return ptr.add(off, ps)
            if a_n is not None and b_n is not None and 'ps' in a_n and 'ps' in b_n and a_n['ps'] == 1:
                return a.add(b, -1)
            x = a.add(b, 1 if n['op'] == '+' else -1)
            if an.fits(st, x, n.get('iw')):
                return x
        return Lin.atom(('op', ('inl', g.name, n['i']), n.get('iw')))


# libc functions that read [arg p, arg p + arg n): (pointer index, length index)
LIBC_READERS = {
    'strnlen': [(0, 1)],
    'memcmp': [(0, 2), (1, 2)],
    'memcpy': [(1, 2)],
    'memmem': [(0, 1)],
    'strncmp': [(0, 2), (1, 2)],
    'strncpy': [(1, 2)],
    'memchr': [(0, 2)],
}
NO_EFFECT_CALLS = ('strnlen', 'strlen', 'memcmp', 'strncmp', 'strcmp', 'memchr')

"""AST/CFG helpers shared by the rules."""

TERMINAL = ('break', 'ret', 'goto', 'continue')


def find_switches(fn, pred=None):
    out = []
    for n in fn.all_nodes():
        if n['k'] == 'switch':
            if pred is None or pred(n):
                out.append(n)
    return out


def switch_cond(fn, sw):
    ks = fn.kids(sw)
    return ks[0] if ks else None


def switch_body(fn, sw):
    ks = fn.kids(sw)
    return ks[-1] if ks else None


def _unwrap_case(fn, n, labels):
    """case A: case B: stmt  ->  labels [A, B], returns stmt"""
    while n is not None and n['k'] in ('case', 'default'):
        labels.append(n)
        ks = fn.kids(n)
        # case: kids = [lhs, (rhs), substmt]; default: [substmt]
        n = ks[-1] if ks else None
    return n


def switch_groups(fn, sw):
    """[(labels, stmts)] for the top-level case groups of a switch.
    labels: list of case/default nodes; stmts: statement nodes that belong
    to the group in source order (until the next case label)."""
    body = switch_body(fn, sw)
    groups = []
    if body is None:
        return groups
    if body['k'] != 'compound':
        labels = []
        s = _unwrap_case(fn, body, labels)
        return [(labels, [s] if s is not None else [])]
    cur = None
    for st in fn.kids(body):
        if st['k'] in ('case', 'default'):
            labels = []
            s = _unwrap_case(fn, st, labels)
            cur = (labels, [s] if s is not None else [])
            groups.append(cur)
        elif cur is not None:
            cur[1].append(st)
    return groups


def group_nodes(fn, stmts):
    for s in stmts:
        for n in fn.walk(s):
            yield n


def falls_through(fn, stmts):
    """does control run off the end of the group into the next label?"""
    if not stmts:
        return True
    last = stmts[-1]
    while last is not None and last['k'] == 'compound':
        ks = fn.kids(last)
        if not ks:
            return True
        last = ks[-1]
    if last is None:
        return True
    if last['k'] in TERMINAL:
        return False
    return True


def case_label_name(n):
    """macro the label was spelled with, else its value"""
    if n['k'] == 'default':
        return 'default'
    return n.get('mn') or str(n.get('v'))


def label_block(fn, label_node):
    for b, bd in fn.blocks.items():
        if bd.get('label') == label_node['i']:
            return b
    return None


def strip_casts(fn, n):
    while n is not None and n['k'] == 'cast':
        ks = fn.kids(n)
        if not ks:
            break
        n = ks[0]
    return n


def member_path(fn, n):
    """(root node, [field names]) for a chain of member/sub/deref accesses;
    subscripts appear as '[k]' with the constant index when known else '[]',
    dereferences as '*'."""
    path = []
    while n is not None:
        k = n['k']
        if k == 'member':
            path.append(n['fld'])
            n = fn.kid(n, 0)
        elif k == 'sub':
            idx = fn.kid(n, 1)
            if idx is not None and 'v' in idx:
                path.append('[%d]' % idx['v'])
            else:
                path.append('[]')
            n = fn.kid(n, 0)
        elif k == 'un' and n['op'] == '*':
            path.append('*')
            n = fn.kid(n, 0)
        elif k == 'cast':
            n = fn.kid(n, 0)
        else:
            break
    path.reverse()
    return n, path


def const_of(n):
    if n is None:
        return None
    if 'v' in n:
        return n['v']
    if 'vs' in n:
        return int(n['vs'])
    return None


def assignments(fn, nodes):
    for n in nodes:
        if n['k'] == 'bin' and n['op'] in ('=', '+=', '-=', '|=', '&=', '^=',
                                            '*=', '/=', '%=', '<<=', '>>='):
            yield n


def forward(fn, init, transfer, join, start=None, edge=None, max_iter=200000):
    """Generic forward dataflow over the CFG.

    init      state at the start block
    transfer  (block id, state) -> state at block end
    join      (a, b) -> joined state (states must support ==)
    edge      optional (block id, succ index, succ id, state) -> state or None
              (None = edge not taken)
    returns   {block: in-state}
    """
    start = fn.entry if start is None else start
    ins = {start: init}
    work = [start]
    it = 0
    while work:
        it += 1
        if it > max_iter:
            raise RuntimeError('dataflow did not converge in %s' % fn.name)
        b = work.pop()
        out = transfer(b, ins[b])
        for i, s in enumerate(fn.blocks[b]['s']):
            if s is None:
                continue
            st = out
            if edge is not None:
                st = edge(b, i, s, out)
                if st is None:
                    continue
            if s not in ins:
                ins[s] = st
                work.append(s)
            else:
                j = join(ins[s], st)
                if j != ins[s]:
                    ins[s] = j
                    work.append(s)
    return ins


def blocks_between(fn, start, stops):
    """blocks reachable from start without passing through a block in stops
    (stops themselves excluded)"""
    seen = set()
    st = [start]
    while st:
        b = st.pop()
        if b in seen or b in stops:
            continue
        seen.add(b)
        for s in fn.succs(b):
            st.append(s)
    return seen


def dominators(fn):
    """immediate-dominator-free dominator sets (small CFGs only) — for large
    functions use must-pass dataflow instead."""
    blocks = list(fn.reachable_blocks())
    preds = fn.preds()
    dom = {b: set(blocks) for b in blocks}
    dom[fn.entry] = set([fn.entry])
    changed = True
    while changed:
        changed = False
        for b in blocks:
            if b == fn.entry:
                continue
            ps = [p for p in preds[b] if p in dom]
            if not ps:
                continue
            new = set.intersection(*[dom[p] for p in ps]) | set([b])
            if new != dom[b]:
                dom[b] = new
                changed = True
    return dom


def _decl_index(fn):
    idx = getattr(fn, '_decl_index', None)
    if idx is None:
        idx = {}
        for d in fn.all_nodes():
            if d['k'] == 'decl':
                sc = None
                for a in fn.ancestors(d):
                    if a['k'] in ('compound', 'for', 'fn', 'while', 'do', 'if', 'switch'):
                        sc = a
                        break
                idx.setdefault(d.get('name'), []).append((d, sc['i'] if sc is not None else None))
        fn._decl_index = idx
    return idx


def decl_of(fn, ref):
    """the declaration node a reference to a local denotes: the nearest
    preceding declaration of that name in an enclosing scope"""
    cands = _decl_index(fn).get(ref['name'])
    if not cands:
        return None
    if len(cands) == 1:
        return cands[0][0]
    anc = [a['i'] for a in fn.ancestors(ref)]
    best = None
    for d, sc in cands:
        if d['i'] > ref['i'] and not fn.is_ancestor(d, ref):
            continue
        if sc is None or sc in anc:
            depth = anc.index(sc) if sc is not None else len(anc)
            if best is None or depth < best[0]:
                best = (depth, d)
    return best[1] if best else cands[0][0]


def stable_defs(fn):
    """{declaration node id: defining expression node} for locals that are defined
    exactly once (declaration with initialiser, or a declaration without one
    followed by a single plain assignment), never otherwise written and never
    have their address taken, and whose defining expression mentions only
    parameters that are never written and other such locals, and no call: the
    local is a name for that expression wherever it is used.  Same-named locals
    of different scopes are kept apart (keys are declarations)."""
    cached = getattr(fn, '_stable_defs', None)
    if cached is not None:
        return cached
    defs = {}
    bad = set()
    for n in fn.all_nodes():
        tgt = None
        if n['k'] == 'decl' and n.get('c'):
            defs.setdefault(n['i'], []).append(fn.kid(n, 0))
        elif n['k'] == 'bin' and n['op'].endswith('=') and n['op'] not in ('==', '!=', '<=', '>='):
            l = strip_casts(fn, fn.kid(n, 0))
            if l is not None and l['k'] == 'ref' and l.get('dk') == 'local':
                d = decl_of(fn, l)
                if d is not None:
                    if n['op'] == '=':
                        defs.setdefault(d['i'], []).append(fn.kid(n, 1))
                    else:
                        bad.add(d['i'])
        elif n['k'] == 'un' and n['op'] in ('++', '--', 'post++', 'post--', '&'):
            l = strip_casts(fn, fn.kid(n, 0))
            if l is not None and l['k'] == 'ref' and l.get('dk') == 'local':
                d = decl_of(fn, l)
                if d is not None:
                    bad.add(d['i'])
    params = set(p['name'] for p in fn.params)
    written_params = set()
    for n in fn.all_nodes():
        if n['k'] in ('bin', 'un'):
            l = strip_casts(fn, fn.kid(n, 0))
            if l is not None and l['k'] == 'ref' and l.get('dk') == 'param' and (
                    (n['k'] == 'bin' and n['op'].endswith('=') and n['op'] not in ('==', '!=', '<=', '>=')) or
                    (n['k'] == 'un' and n['op'] in ('++', '--', 'post++', 'post--', '&'))):
                written_params.add(l['name'])
    cand = {i: ds[0] for i, ds in defs.items() if len(ds) == 1 and i not in bad}
    # writes per declaration, to allow names whose ingredients change only outside
    # the block in which the name is visible (a loop variable advanced in the loop
    # header, read by a local declared inside the loop body)
    wr = {}
    for n in fn.all_nodes():
        l = None
        if n['k'] == 'bin' and n['op'].endswith('=') and n['op'] not in ('==', '!=', '<=', '>='):
            l = strip_casts(fn, fn.kid(n, 0))
        elif n['k'] == 'un' and n['op'] in ('++', '--', 'post++', 'post--', '&'):
            l = strip_casts(fn, fn.kid(n, 0))
        if l is not None and l['k'] == 'ref' and l.get('dk') == 'local':
            d = decl_of(fn, l)
            if d is not None:
                wr.setdefault(d['i'], []).append(n)

    def scope_of(decl_id):
        d = fn.nodes[decl_id]
        for a in fn.ancestors(d):
            if a['k'] == 'compound':
                return a
        return None
    changed = True
    while changed:
        changed = False
        for i, e in list(cand.items()):
            ok = True
            for x in fn.walk(e):
                if x['k'] == 'call':
                    ok = False
                    break
                if x['k'] == 'ref' and x.get('dk') == 'param' and x['name'] in written_params:
                    ok = False
                    break
                if x['k'] == 'ref' and x.get('dk') == 'local':
                    d = decl_of(fn, x)
                    if d is None or d['i'] == i:
                        ok = False
                        break
                    if d['i'] not in cand:
                        sc = scope_of(i)
                        if sc is None or d.get('c') is None and not wr.get(d['i']) or \
                                any(fn.is_ancestor(sc, w) for w in wr.get(d['i'], [])):
                            ok = False
                            break
            if not ok:
                del cand[i]
                changed = True
    fn._stable_defs = cand
    return cand


def stable_def_of(fn, ref):
    """the expression a reference to a stable local stands for, or None"""
    if ref is None or ref['k'] != 'ref' or ref.get('dk') != 'local':
        return None
    sd = stable_defs(fn)
    if not sd:
        return None
    d = decl_of(fn, ref)
    return sd.get(d['i']) if d is not None else None


def family(prog, fn, depth=3):
    """fn and the helpers it is built from: functions of the same translation unit
    that fn calls directly (transitively up to `depth`), so that a rule anchored
    on fn still finds a site after an "extract function" refactoring"""
    out = [fn]
    seen = set([fn.name])
    frontier = [fn]
    for _ in range(depth):
        nxt = []
        for g in frontier:
            for c in g.calls():
                cal = c.get('callee')
                if not cal or cal in seen:
                    continue
                h = fn.tu.functions.get(cal)
                if h is None or not getattr(h, 'static', False):
                    continue
                seen.add(cal)
                out.append(h)
                nxt.append(h)
        frontier = nxt
    return out


def only_called_from(f, permitted, depth=0):
    """f is a static helper all of whose callers are in `permitted` (or are static
    helpers of which the same holds) and whose address is never taken: what f does
    is done on behalf of the permitted functions only"""
    if not getattr(f, 'static', False) or depth > 3:
        return False
    callers = [g for g in f.tu.fn_list if any(c.get('callee') == f.name for c in g.calls())]
    if not callers:
        return False
    for g in f.tu.fn_list:
        for n in g.all_nodes():
            if n['k'] == 'ref' and n.get('name') == f.name:
                par = g.parent(n)
                if not (par is not None and par['k'] == 'call' and g.kid(par, 0) is n) and \
                        not (par is not None and par['k'] == 'call' and par.get('callee') == f.name):
                    return False
    return all(g.name in permitted or only_called_from(g, permitted, depth + 1) for g in callers)


def helpers_reaching(prog, fn, target, depth=3):
    """names of the static same-unit helpers of fn (see `family`) through which fn
    reaches a call of `target`"""
    out = set()
    fam = family(prog, fn, depth)
    changed = True
    while changed:
        changed = False
        for h in fam[1:]:
            if h.name in out:
                continue
            if any(c.get('callee') == target or c.get('callee') in out for c in h.calls()):
                out.add(h.name)
                changed = True
    return out


def trip_count(fn, loop):
    """number of iterations of a counting loop, when it is a constant: a counter that
    starts at a constant (for-init, or its declaration / last assignment in front of the
    loop), is stepped by one once per iteration and compared with a constant.  Handles
    `for (i = a; i < b; i++)`, `while (n > 0) { ..; n -= 1; }` and the like; None when
    the shape is anything else."""
    cond = None
    if loop['k'] == 'for':
        parts = loop.get('parts', [])
        cond = fn.node(parts[1]) if len(parts) > 1 and parts[1] >= 0 else None
    elif loop['k'] == 'while':
        cond = fn.kid(loop, 0)
    cond = strip_casts(fn, cond) if cond is not None else None
    if cond is None or cond['k'] != 'bin' or cond['op'] not in ('<', '<=', '>', '>=', '!='):
        return None
    a, b = strip_casts(fn, fn.kid(cond, 0)), strip_casts(fn, fn.kid(cond, 1))
    op = cond['op']
    if a is not None and a['k'] != 'ref' and b is not None and b['k'] == 'ref':
        a, b = b, a
        op = {'<': '>', '<=': '>=', '>': '<', '>=': '<=', '!=': '!='}[op]
    if a is None or a['k'] != 'ref' or const_of(b) is None:
        return None
    v, limit = a['name'], const_of(b)
    # steps of v inside the loop
    steps = []
    for x in fn.walk(loop):
        if x['k'] == 'un' and x['op'] in ('++', 'post++', '--', 'post--'):
            l = strip_casts(fn, fn.kid(x, 0))
            if l is not None and l['k'] == 'ref' and l['name'] == v:
                steps.append(1 if '+' in x['op'] else -1)
        elif x['k'] == 'bin' and x['op'] in ('+=', '-=', '='):
            l = strip_casts(fn, fn.kid(x, 0))
            if l is not None and l['k'] == 'ref' and l['name'] == v:
                if loop['k'] == 'for' and loop.get('parts') and fn.node(loop['parts'][0]) is not None and \
                        any(y is x for y in fn.walk(fn.node(loop['parts'][0]))):
                    continue            # the for-init
                c = const_of(strip_casts(fn, fn.kid(x, 1)))
                if x['op'] == '=' or c != 1:
                    return None
                steps.append(1 if x['op'] == '+=' else -1)
    if len(steps) != 1:
        return None
    step = steps[0]
    # initial value
    init = None
    if loop['k'] == 'for' and loop.get('parts') and loop['parts'][0] >= 0:
        for x in fn.walk(fn.node(loop['parts'][0])):
            if x['k'] == 'decl' and x.get('name') == v and x.get('c'):
                init = const_of(strip_casts(fn, fn.kid(x, 0)))
            elif x['k'] == 'bin' and x['op'] == '=':
                l = strip_casts(fn, fn.kid(x, 0))
                if l is not None and l['k'] == 'ref' and l['name'] == v:
                    init = const_of(strip_casts(fn, fn.kid(x, 1)))
    if init is None:
        best = None
        inside = set(y['i'] for y in fn.walk(loop))
        cands = sorted((x for x in fn.all_nodes() if x['i'] not in inside and
                        x.get('l', 0) <= loop.get('l', 0)), key=lambda x: x.get('l', 0))
        for x in cands:
            if x['k'] == 'decl' and x.get('name') == v and x.get('c'):
                best = fn.kid(x, 0)
            elif x['k'] == 'bin' and x['op'] == '=':
                l = strip_casts(fn, fn.kid(x, 0))
                if l is not None and l['k'] == 'ref' and l['name'] == v:
                    best = fn.kid(x, 1)
        init = const_of(strip_casts(fn, best)) if best is not None else None
    if init is None:
        return None
    if step == 1 and op in ('<', '!='):
        return max(limit - init, 0)
    if step == 1 and op == '<=':
        return max(limit - init + 1, 0)
    if step == -1 and op in ('>', '!='):
        return max(init - limit, 0)
    if step == -1 and op == '>=':
        return max(init - limit + 1, 0)
    return None

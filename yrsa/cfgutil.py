"""AST/CFG helpers shared by the rules."""

TERMINAL = ('break', 'ret', 'goto', 'continue')


def find_switches(fn, pred=None):
    out = []
    for n in fn.all_nodes():
        if n['k'] == 'switch':
            if pred is None or pred(n):
                out.append(n)
    return out


def switch_cond(fn, sw):
    ks = fn.kids(sw)
    return ks[0] if ks else None


def switch_body(fn, sw):
    ks = fn.kids(sw)
    return ks[-1] if ks else None


def _unwrap_case(fn, n, labels):
    """case A: case B: stmt  ->  labels [A, B], returns stmt"""
    while n is not None and n['k'] in ('case', 'default'):
        labels.append(n)
        ks = fn.kids(n)
        # case: kids = [lhs, (rhs), substmt]; default: [substmt]
        n = ks[-1] if ks else None
    return n


def switch_groups(fn, sw):
    """[(labels, stmts)] for the top-level case groups of a switch.
    labels: list of case/default nodes; stmts: statement nodes that belong
    to the group in source order (until the next case label)."""
    body = switch_body(fn, sw)
    groups = []
    if body is None:
        return groups
    if body['k'] != 'compound':
        labels = []
        s = _unwrap_case(fn, body, labels)
        return [(labels, [s] if s is not None else [])]
    cur = None
    for st in fn.kids(body):
        if st['k'] in ('case', 'default'):
            labels = []
            s = _unwrap_case(fn, st, labels)
            cur = (labels, [s] if s is not None else [])
            groups.append(cur)
        elif cur is not None:
            cur[1].append(st)
    return groups


def group_nodes(fn, stmts):
    for s in stmts:
        for n in fn.walk(s):
            yield n


def falls_through(fn, stmts):
    """does control run off the end of the group into the next label?"""
    if not stmts:
        return True
    last = stmts[-1]
    while last is not None and last['k'] == 'compound':
        ks = fn.kids(last)
        if not ks:
            return True
        last = ks[-1]
    if last is None:
        return True
    if last['k'] in TERMINAL:
        return False
    return True


def case_label_name(n):
    """macro the label was spelled with, else its value"""
    if n['k'] == 'default':
        return 'default'
    return n.get('mn') or str(n.get('v'))


def label_block(fn, label_node):
    for b, bd in fn.blocks.items():
        if bd.get('label') == label_node['i']:
            return b
    return None


def strip_casts(fn, n):
    while n is not None and n['k'] == 'cast':
        ks = fn.kids(n)
        if not ks:
            break
        n = ks[0]
    return n


def member_path(fn, n):
    """(root node, [field names]) for a chain of member/sub/deref accesses;
    subscripts appear as '[k]' with the constant index when known else '[]',
    dereferences as '*'."""
    path = []
    while n is not None:
        k = n['k']
        if k == 'member':
            path.append(n['fld'])
            n = fn.kid(n, 0)
        elif k == 'sub':
            idx = fn.kid(n, 1)
            if idx is not None and 'v' in idx:
                path.append('[%d]' % idx['v'])
            else:
                path.append('[]')
            n = fn.kid(n, 0)
        elif k == 'un' and n['op'] == '*':
            path.append('*')
            n = fn.kid(n, 0)
        elif k == 'cast':
            n = fn.kid(n, 0)
        else:
            break
    path.reverse()
    return n, path


def const_of(n):
    if n is None:
        return None
    if 'v' in n:
        return n['v']
    if 'vs' in n:
        return int(n['vs'])
    return None


def assignments(fn, nodes):
    for n in nodes:
        if n['k'] == 'bin' and n['op'] in ('=', '+=', '-=', '|=', '&=', '^=',
                                            '*=', '/=', '%=', '<<=', '>>='):
            yield n


def forward(fn, init, transfer, join, start=None, edge=None, max_iter=200000):
    """Generic forward dataflow over the CFG.

    init      state at the start block
    transfer  (block id, state) -> state at block end
    join      (a, b) -> joined state (states must support ==)
    edge      optional (block id, succ index, succ id, state) -> state or None
              (None = edge not taken)
    returns   {block: in-state}
    """
    start = fn.entry if start is None else start
    ins = {start: init}
    work = [start]
    it = 0
    while work:
        it += 1
        if it > max_iter:
            raise RuntimeError('dataflow did not converge in %s' % fn.name)
        b = work.pop()
        out = transfer(b, ins[b])
        for i, s in enumerate(fn.blocks[b]['s']):
            if s is None:
                continue
            st = out
            if edge is not None:
                st = edge(b, i, s, out)
                if st is None:
                    continue
            if s not in ins:
                ins[s] = st
                work.append(s)
            else:
                j = join(ins[s], st)
                if j != ins[s]:
                    ins[s] = j
                    work.append(s)
    return ins


def blocks_between(fn, start, stops):
    """blocks reachable from start without passing through a block in stops
    (stops themselves excluded)"""
    seen = set()
    st = [start]
    while st:
        b = st.pop()
        if b in seen or b in stops:
            continue
        seen.add(b)
        for s in fn.succs(b):
            st.append(s)
    return seen


def dominators(fn):
    """immediate-dominator-free dominator sets (small CFGs only) — for large
    functions use must-pass dataflow instead."""
    blocks = list(fn.reachable_blocks())
    preds = fn.preds()
    dom = {b: set(blocks) for b in blocks}
    dom[fn.entry] = set([fn.entry])
    changed = True
    while changed:
        changed = False
        for b in blocks:
            if b == fn.entry:
                continue
            ps = [p for p in preds[b] if p in dom]
            if not ps:
                continue
            new = set.intersection(*[dom[p] for p in ps]) | set([b])
            if new != dom[b]:
                dom[b] = new
                changed = True
    return dom


def decl_of(fn, ref):
    """the declaration node a reference to a local denotes: the nearest
    preceding declaration of that name in an enclosing scope"""
    name = ref['name']
    decls = [d for d in fn.all_nodes() if d['k'] == 'decl' and d.get('name') == name]
    if not decls:
        return None
    if len(decls) == 1:
        return decls[0]
    anc = [a['i'] for a in fn.ancestors(ref)]
    best = None
    for d in decls:
        if d['i'] > ref['i'] and not fn.is_ancestor(d, ref):
            continue
        # scope of d = nearest compound / for ancestor
        sc = None
        for a in fn.ancestors(d):
            if a['k'] in ('compound', 'for', 'fn', 'while', 'do', 'if', 'switch'):
                sc = a
                break
        if sc is None or sc['i'] in anc:
            depth = anc.index(sc['i']) if sc is not None else len(anc)
            if best is None or depth < best[0]:
                best = (depth, d)
    return best[1] if best else decls[0]

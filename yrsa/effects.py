"""K-effect: may-write summaries.

Direct effects of a function:
  ('field', record, field)   store through a pointer into a record field
  ('mem', record)            memset/memcpy/... over a pointer to that record
  ('deref', type)            store through a plain pointer (*p = .., p[i] = ..)
  ('global', name)           store to a global / function-static variable
Each with the node that performs it. Stores into records held by value in a
local (no pointer on the access path) are not effects.
"""
from . import cfgutil as cu

MEM_WRITERS = {'memset': 0, 'memcpy': 0, 'memmove': 0, 'strcpy': 0, 'strncpy': 0,
               'strlcpy': 0, 'strcat': 0, 'strlcat': 0, 'sprintf': 0, 'snprintf': 0,
               'vsnprintf': 0, 'fread': 0, 'read': 1, 'pread': 1}

ASSIGN_OPS = ('=', '+=', '-=', '*=', '/=', '%=', '|=', '&=', '^=', '<<=', '>>=')


def _via_pointer(f, lhs):
    """does the access path of lhs go through a pointer (->, *, [] on a pointer)"""
    n = lhs
    while n is not None:
        k = n['k']
        if k == 'member':
            if n.get('arrow'):
                return True
            n = f.kid(n, 0)
        elif k == 'sub':
            b = f.kid(n, 0)
            bt = (b.get('t') or '') if b is not None else ''
            if '*' in bt and '[' not in bt:
                return True
            n = b
        elif k == 'un' and n['op'] == '*':
            return True
        elif k == 'cast':
            n = f.kid(n, 0)
        else:
            return False
    return False


def _root(f, lhs):
    n = lhs
    while n is not None and n['k'] in ('member', 'sub', 'cast') or \
            (n is not None and n['k'] == 'un' and n['op'] == '*'):
        n = f.kid(n, 0)
    return n


def _deref_point(f, l):
    """(record, dotted field path) of a member store, named after the record
    that the pointer on the access path designates: `ext->value.i` is a write
    to YR_EXTERNAL_VARIABLE.value.i, not to the unnamed union inside it"""
    path = []
    n = l
    while n is not None and n['k'] in ('member', 'sub', 'cast'):
        if n['k'] == 'member':
            path.append(n['fld'])
            if n.get('arrow'):
                path.reverse()
                return n.get('rec'), '.'.join(path)
        elif n['k'] == 'sub':
            b = f.kid(n, 0)
            bt = (b.get('t') or '') if b is not None else ''
            if '*' in bt and '[' not in bt:
                # element of a pointed-to array of records
                path.reverse()
                nb = b
                while nb is not None and nb['k'] == 'cast':
                    nb = f.kid(nb, 0)
                rec = l.get('rec')
                # record of the element type
                if nb is not None and nb.get('prec'):
                    rec = nb['prec']
                return rec, '.'.join(path) if path else '[]'
        n = f.kid(n, 0)
    return l.get('rec'), l['fld']


def _global_pointee(f, root):
    """name of the global a local pointer points into, when every definition of the local
    is the address of (an element of) that global: `for (m = table; ..; m++)`,
    `m = &table[i]`"""
    if root is None or root['k'] != 'ref' or root.get('dk') != 'local':
        return None
    names = set()
    n_defs = 0
    for n in f.all_nodes():
        src = None
        if n['k'] == 'decl' and n.get('name') == root['name'] and n.get('c'):
            src = f.kid(n, 0)
        elif n['k'] == 'bin' and n['op'] == '=':
            l = cu.strip_casts(f, f.kid(n, 0))
            if l is not None and l['k'] == 'ref' and l['name'] == root['name']:
                src = f.kid(n, 1)
        if src is None:
            continue
        n_defs += 1
        e = cu.strip_casts(f, src)
        if e is not None and e['k'] == 'un' and e['op'] == '&':
            e = cu.strip_casts(f, f.kid(e, 0))
        while e is not None and e['k'] in ('sub', 'member', 'cast') and not e.get('arrow'):
            e = f.kid(e, 0)
        if e is not None and e['k'] == 'bin' and e['op'] == '+':
            e = cu.strip_casts(f, f.kid(e, 0))
        if e is not None and e['k'] == 'ref' and e.get('dk') in ('global', 'slocal') and \
                '[' in (e.get('t') or ''):
            names.add(e['name'])
        else:
            return None
    return list(names)[0] if n_defs and len(names) == 1 else None


def direct_effects(f):
    out = []
    for n in f.all_nodes():
        k = n['k']
        lhs = None
        if k == 'bin' and n['op'] in ASSIGN_OPS:
            lhs = f.kid(n, 0)
        elif k == 'un' and n['op'] in ('++', '--', 'post++', 'post--'):
            lhs = f.kid(n, 0)
        if lhs is not None:
            l = cu.strip_casts(f, lhs)
            if l is None:
                continue
            root = _root(f, l)
            if l['k'] == 'ref':
                if l.get('dk') in ('global', 'slocal'):
                    out.append((('global', l['name']), n))
                continue
            if l['k'] == 'member':
                if _via_pointer(f, l):
                    rec, fld = _deref_point(f, l)
                    out.append((('field', rec, fld), n))
                    g = _global_pointee(f, root)
                    if g is not None:
                        # the record lives in a global table: a store to process-wide state
                        out.append((('global', g), n))
                elif root is not None and root['k'] == 'ref' and root.get('dk') in ('global', 'slocal'):
                    out.append((('global', root['name']), n))
                continue
            if l['k'] == 'sub' or (l['k'] == 'un' and l['op'] == '*'):
                if root is not None and root['k'] == 'ref' and root.get('dk') in ('global', 'slocal') \
                        and not _via_pointer(f, l):
                    out.append((('global', root['name']), n))
                    continue
                if _via_pointer(f, l):
                    # element of an array reached through a pointer: name the
                    # enclosing field if there is one
                    inner = f.kid(l, 0)
                    inner = cu.strip_casts(f, inner)
                    if inner is not None and inner['k'] == 'member':
                        out.append((('field', inner.get('rec'), inner['fld'] + '[]'), n))
                    else:
                        out.append((('deref', l.get('t') or '?'), n))
                continue
        if k == 'call' and n.get('callee') in MEM_WRITERS:
            args = f.call_args(n)
            i = MEM_WRITERS[n['callee']]
            if i < len(args):
                d = cu.strip_casts(f, args[i])
                if d is None:
                    continue
                if d['k'] == 'un' and d['op'] == '&':
                    inner = cu.strip_casts(f, f.kid(d, 0))
                    root = _root(f, inner)
                    if inner is not None and _via_pointer(f, inner):
                        if inner['k'] == 'member':
                            out.append((('field', inner.get('rec'), inner['fld']), n))
                        else:
                            out.append((('mem', inner.get('trec') or inner.get('t') or '?'), n))
                    elif root is not None and root['k'] == 'ref' and root.get('dk') in ('global', 'slocal'):
                        out.append((('global', root['name']), n))
                    continue
                pr = d.get('prec')
                if d['k'] == 'member' and _via_pointer(f, d):
                    out.append((('field', d.get('rec'), d['fld'] + '[]'), n))
                elif pr:
                    out.append((('mem', pr), n))
                elif d['k'] == 'ref' and d.get('dk') in ('global', 'slocal'):
                    out.append((('global', d['name']), n))
                elif d['k'] == 'ref' and d.get('dk') == 'param':
                    out.append((('deref', d.get('t') or '?'), n))
    return out


def param_writes(f):
    """indices of the pointer parameters whose pointee f writes itself: memset(p, ..),
    *p = .., p[i] = .. (a helper that clears or fills what it is handed)"""
    pn = [p['name'] for p in f.params]
    out = set()
    for n in f.all_nodes():
        k = n['k']
        tgt = None
        if k == 'call' and n.get('callee') in MEM_WRITERS:
            args = f.call_args(n)
            i = MEM_WRITERS[n['callee']]
            if i < len(args):
                tgt = cu.strip_casts(f, args[i])
        elif (k == 'bin' and n['op'] in ASSIGN_OPS) or (k == 'un' and n['op'] in ('++', '--', 'post++', 'post--')):
            l = cu.strip_casts(f, f.kid(n, 0))
            if l is not None and (l['k'] == 'sub' or (l['k'] == 'un' and l['op'] == '*')):
                tgt = cu.strip_casts(f, f.kid(l, 0))
        if tgt is not None and tgt['k'] == 'ref' and tgt.get('dk') == 'param' and tgt['name'] in pn:
            out.add(pn.index(tgt['name']))
    return out


class Effects(object):
    def __init__(self, prog, cg):
        self.prog = prog
        self.cg = cg
        self.direct = {}
        pw = {}
        for f in prog.fns():
            self.direct[(f.tu.name, f.name)] = direct_effects(f)
            w = param_writes(f)
            if w:
                pw[(f.tu.name, f.name)] = w
        # a field handed to a helper that writes through its parameter is written there:
        # `clear_bitmask(scanner->flags, n)` is an effect on scanner->flags[] of the caller
        for f in prog.fns():
            for c in f.calls():
                cal = c.get('callee')
                if not cal or cal in MEM_WRITERS:
                    continue
                h = prog.fn(cal, f.tu)
                if h is None or (h.tu.name, h.name) not in pw:
                    continue
                args = f.call_args(c)
                for i in pw[(h.tu.name, h.name)]:
                    if i >= len(args):
                        continue
                    d = cu.strip_casts(f, args[i])
                    if d is not None and d['k'] == 'member' and _via_pointer(f, d):
                        self.direct[(f.tu.name, f.name)].append((('field', d.get('rec'), d['fld'] + '[]'), c))
        self._trans = None

    def transitive(self, roots=None):
        """{(tu,fn): {effect: (fn where it happens, node)}}"""
        if self._trans is not None:
            return self._trans
        prog, cg = self.prog, self.cg
        T = {}
        for f in prog.fns():
            key = (f.tu.name, f.name)
            d = {}
            for e, n in self.direct[key]:
                d.setdefault(e, (f, n))
            T[key] = d
        changed = True
        rounds = 0
        while changed and rounds < 40:
            changed = False
            rounds += 1
            for f in prog.fns():
                key = (f.tu.name, f.name)
                cur = T[key]
                for c, t, g in cg.callees(f):
                    if g is None:
                        continue
                    for e, w in T[(g.tu.name, g.name)].items():
                        if e not in cur:
                            cur[e] = w
                            changed = True
        self._trans = T
        return T

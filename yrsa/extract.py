"""Scratch copy of /repo's working tree -> compile commands -> yrx facts.

Nothing of yara is executed: `make -n` only prints the compile commands of the
configured build; bison/flex are run on the .y/.l inputs exactly as the
Makefile would (through build-aux/ylwrap) to obtain the parser sources that a
build of the current tree compiles.
"""
import hashlib
import json
import os
import re
import shlex
import shutil
import subprocess
import sys
import tempfile
import time
from concurrent.futures import ThreadPoolExecutor

VERIF = os.path.dirname(os.path.dirname(os.path.abspath(__file__)))
REPO = os.environ.get('YARA_REPO', '/repo')
YRX = os.path.join(VERIF, '.build', 'yrx')
CACHE = os.environ.get('YRSA_CACHE') or os.path.join(VERIF, '.cache')
RESOURCE_DIR = '/usr/lib/llvm-14/lib/clang/14.0.6'

PARSERS = [
    ('libyara/grammar.y', 'libyara/grammar.c'),
    ('libyara/lexer.l', 'libyara/lexer.c'),
    ('libyara/hex_grammar.y', 'libyara/hex_grammar.c'),
    ('libyara/hex_lexer.l', 'libyara/hex_lexer.c'),
    ('libyara/re_grammar.y', 'libyara/re_grammar.c'),
    ('libyara/re_lexer.l', 'libyara/re_lexer.c'),
]

# modules named by the properties (C06) that the sandbox configuration does
# not compile; they parse with their module define switched on.
EXTRA_UNITS = [
    ('libyara/modules/macho/macho.c', ['-DMACHO_MODULE']),
    ('libyara/modules/dex/dex.c', ['-DDEX_MODULE']),
]

SRC_DIRS = ['libyara', 'cli']
SRC_EXT = ('.c', '.h', '.y', '.l')


class AnalysisBroken(Exception):
    pass


def _source_files(root):
    out = []
    for d in SRC_DIRS:
        for dp, dn, fn in os.walk(os.path.join(root, d)):
            dn[:] = [x for x in dn if x not in ('.libs', '.deps')]
            for f in fn:
                if f.endswith(SRC_EXT):
                    out.append(os.path.join(dp, f))
    for f in ('Makefile.am', 'configure.ac', 'docs/writingrules.rst'):
        p = os.path.join(root, f)
        if os.path.exists(p):
            out.append(p)
    out.sort()
    return out


def tree_hash(root):
    h = hashlib.sha256()
    for p in (YRX, os.path.join(VERIF, 'yrsa', 'extract.py')):
        with open(p, 'rb') as f:
            h.update(hashlib.sha256(f.read()).digest())
    for p in _source_files(root):
        h.update(os.path.relpath(p, root).encode())
        with open(p, 'rb') as f:
            h.update(hashlib.sha256(f.read()).digest())
    return h.hexdigest()[:32]


def _run(cmd, cwd, **kw):
    return subprocess.run(cmd, cwd=cwd, stdout=subprocess.PIPE,
                          stderr=subprocess.PIPE, text=True, **kw)


def _compile_commands(scratch):
    """Parse `make -n all` (objects absent in the scratch copy, so every
    compile command is printed; nothing is executed)."""
    r = _run(['make', '-n', 'all'], scratch)
    cmds = {}
    for line in r.stdout.splitlines():
        if ' -c -o ' not in line:
            continue
        # strip the libtool prefix and shell decorations
        m = re.search(r'\bgcc\s.*', line)
        if not m:
            continue
        text = m.group(0)
        text = re.sub(r"`test -f '([^']+)' \|\| echo '\./'`\S+", r'\1', text)
        text = text.replace('&&\\', '').replace('&&', '')
        text = text.replace('$depbase', 'depbase')
        try:
            toks = shlex.split(text)
        except ValueError:
            continue
        src = None
        flags = []
        skip = 0
        for t in toks[1:]:
            if skip:
                skip -= 1
                continue
            if t in ('-MT', '-MF', '-o'):
                skip = 1
                continue
            if t in ('-MD', '-MP', '-c'):
                continue
            if t.endswith('.c') and not t.startswith('-'):
                src = t
                continue
            if t.startswith(('-D', '-I', '-U', '-std', '-include')):
                flags.append(t)
        if src is None:
            continue
        src = os.path.normpath(src)
        if not src.startswith(('libyara/', 'cli/')):
            continue
        cmds[src] = flags
    if len(cmds) < 40:
        raise AnalysisBroken(
            'compile database: only %d commands recovered from `make -n all` '
            '(stderr: %s)' % (len(cmds), r.stderr[-400:]))
    return cmds


def _regen_parsers(scratch):
    for y, c in PARSERS:
        os.utime(os.path.join(scratch, y))
    r = _run(['make'] + [c for _, c in PARSERS], scratch)
    if r.returncode != 0:
        raise AnalysisBroken('parser regeneration failed: ' + r.stderr[-800:])


CONFIGS = {
    None: ['-UNDEBUG'],
    # release builds: assert() compiles to nothing, so the paths it cuts off exist
    'ndebug': ['-DNDEBUG'],
    # --enable-profiling: per-rule / per-string cost accounting in the scan path
    'profiling': ['-UNDEBUG', '-DYR_PROFILING_ENABLED'],
}


def _yrx(scratch, src, flags, out, config=None):
    cmd = [YRX, '-root', os.path.realpath(scratch), '-o', out, src, '--'] + flags + [
        '-resource-dir', RESOURCE_DIR, '-w'] + CONFIGS[config]
    r = _run(cmd, scratch)
    ok = r.returncode == 0 and os.path.exists(out)
    return src, ok, r.stderr[-2000:]


def prepare(verbose=False, config=None):
    """Return (facts_dir, info).  facts_dir holds one <unit>.json per TU.
    config: None (the configured build) or a key of CONFIGS (same units, extra
    preprocessor configuration; thorough tier)."""
    t0 = time.time()
    if not os.path.exists(YRX):
        b = _run(['sh', os.path.join(VERIF, 'tools', 'build.sh')], VERIF)
        if b.returncode != 0 or not os.path.exists(YRX):
            raise AnalysisBroken('cannot build yrx: ' + b.stderr[-800:])
    th = tree_hash(REPO)
    fdir = os.path.join(CACHE, th + ('-' + config if config else ''))
    done = os.path.join(fdir, 'DONE.json')
    if os.path.exists(done):
        info = json.load(open(done))
        info['cache'] = 'hit'
        info['prepare_s'] = round(time.time() - t0, 2)
        return fdir, info
    os.makedirs(CACHE, exist_ok=True)
    # drop old caches (keep disk small)
    for d in os.listdir(CACHE):
        if not d.startswith(th):
            shutil.rmtree(os.path.join(CACHE, d), ignore_errors=True)
    tmp = tempfile.mkdtemp(prefix='yrsa-')
    try:
        scratch = os.path.join(tmp, 'repo')
        r = _run(['rsync', '-a', '--exclude', '.git', '--exclude', '*.o',
                  '--exclude', '*.lo', '--exclude', '*.la', '--exclude',
                  '.libs', '--exclude', '*.a', '--exclude', '/test-*',
                  '--exclude', '/yara', '--exclude', '/yarac',
                  REPO + '/', scratch + '/'], '/')
        if r.returncode != 0:
            raise AnalysisBroken('rsync failed: ' + r.stderr[-400:])
        cmds = _compile_commands(scratch)
        # committed parser sources, kept aside as a second variant
        committed = {}
        for y, c in PARSERS:
            dst = c[:-2] + '.committed.c'
            shutil.copy2(os.path.join(scratch, c), os.path.join(scratch, dst))
            committed[dst] = cmds.get(c)
        _regen_parsers(scratch)
        drift = []
        for y, c in PARSERS:
            a = open(os.path.join(scratch, c), 'rb').read()
            b = open(os.path.join(scratch, c[:-2] + '.committed.c'), 'rb').read()
            if a != b:
                drift.append(c)
        units = dict(cmds)
        for dst, fl in committed.items():
            if fl is not None:
                units[dst] = fl
        base_flags = cmds.get('libyara/exec.c')
        for src, extra in EXTRA_UNITS:
            if src not in units and os.path.exists(os.path.join(scratch, src)):
                units[src] = base_flags + extra
        out_tmp = os.path.join(tmp, 'facts')
        os.makedirs(out_tmp)
        jobs = []
        with ThreadPoolExecutor(max_workers=16) as ex:
            for src, flags in sorted(units.items()):
                out = os.path.join(out_tmp, src.replace('/', '__') + '.json')
                jobs.append(ex.submit(_yrx, scratch, src, flags, out, config))
        failed = []
        for j in jobs:
            src, ok, err = j.result()
            if not ok:
                failed.append((src, err))
        if failed:
            raise AnalysisBroken('yrx failed on: ' + '; '.join(
                '%s: %s' % (s, e[-300:]) for s, e in failed))
        # keep the texts the non-C rules read
        for f in ('libyara/grammar.y', 'libyara/hex_grammar.y',
                  'libyara/re_grammar.y', 'libyara/lexer.l',
                  'libyara/hex_lexer.l', 'libyara/re_lexer.l',
                  'docs/writingrules.rst'):
            p = os.path.join(scratch, f)
            if os.path.exists(p):
                shutil.copy2(p, os.path.join(out_tmp, f.replace('/', '__')))
        info = {
            'tree_hash': th,
            'config': config or 'as configured',
            'units': sorted(units),
            'parser_drift': drift,
            'not_analysed': ['libyara/modules/magic/magic.c',
                             'libyara/modules/cuckoo/cuckoo.c',
                             'libyara/modules/pb_tests/*',
                             'libyara/proc/{windows,mach,freebsd,openbsd,none}.c',
                             '#ifdef _WIN32 / __APPLE__ branches'],
            'extract_s': round(time.time() - t0, 2),
        }
        json.dump(info, open(os.path.join(out_tmp, 'DONE.json'), 'w'))
        shutil.move(out_tmp, fdir)
    finally:
        shutil.rmtree(tmp, ignore_errors=True)
    info['cache'] = 'miss'
    info['prepare_s'] = round(time.time() - t0, 2)
    return fdir, info


if __name__ == '__main__':
    d, info = prepare(True)
    print(d)
    print(json.dumps(info, indent=1)[:2000])

"""Small library-protocol rules shared between properties."""
from . import cfgutil as cu
from . import paths


CONVERSIONS = ('strtol', 'strtoll', 'strtoul', 'strtoull', 'strtod', 'strtof', 'strtold',
               'strtoimax', 'strtoumax', 'strtoq', 'strtouq')


def _errno_node(f, n):
    """n is the lvalue `errno` (glibc: *__errno_location())"""
    n = cu.strip_casts(f, n)
    if n is None or n['k'] != 'un' or n['op'] != '*':
        return False
    c = cu.strip_casts(f, f.kid(n, 0))
    return c is not None and c['k'] == 'call' and (c.get('callee') or '').endswith('errno_location')


def errno_protocol(ctx, rule, fns):
    """The C library reports range errors of strtol/strtoll/strtod only through errno and
    never clears it on success.  A function that reads errno to decide whether a
    conversion failed must have set errno = 0 on every path to that read; otherwise the
    verdict depends on whatever failed earlier in the same thread (a valid number is
    rejected after an unrelated out-of-range one).  Returns the number of reads decided."""
    n_reads = 0
    for f in fns:
        reads, resets = [], set()
        for n in f.all_nodes():
            if not _errno_node(f, n):
                continue
            par = f.parent(n)
            while par is not None and par['k'] == 'cast':
                par = f.parent(par)
            if par is not None and par['k'] == 'bin' and par['op'] == '=' and \
                    cu.strip_casts(f, f.kid(par, 0)) is n:
                if cu.const_of(cu.strip_casts(f, f.kid(par, 1))) == 0:
                    resets.add(par['i'])
                continue
            if par is not None and par['k'] == 'un' and par['op'] == '&':
                continue
            reads.append(n)
        if not reads:
            continue
        at = {}

        def step(n, facts):
            if n['i'] in resets:
                return frozenset(facts) | {'reset'}
            if n['k'] == 'call' and n.get('callee') in CONVERSIONS:
                # errno now speaks about this call - if it was cleared in front of it
                if 'reset' in facts:
                    return (frozenset(facts) - {'reset'}) | {'fresh'}
                return frozenset(facts) - {'fresh'}
            return facts

        def observe(n, facts):
            for r in reads:
                if n is r:
                    at[r['i']] = 'reset' in facts or 'fresh' in facts
        try:
            paths.must_flow(f, set(), step, None, observe)
        except paths.Budget:
            ctx.note('%s %s: must-flow budget exceeded (not decided)' % (rule, f.name))
            continue
        for k, r in enumerate(sorted(reads, key=lambda x: (x.get('l', 0), x['i']))):
            n_reads += 1
            ok = at.get(r['i'], False)
            ctx.ob(rule, '%s:errno-read#%d:reset-before-the-call' % (f.name, k), ok,
                   '%s:%s' % (f.nfile(r) if hasattr(f, 'nfile') else f.file, r.get('l')),
                   'errno is set to 0 on every path to this test' if ok else
                   'errno is tested here without having been set to 0 on every path: the library '
                   'never clears it, so the outcome of a conversion depends on what failed before '
                   'it in the same thread')
    return n_reads
